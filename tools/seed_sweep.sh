#!/bin/bash
# quick tier of every check for several seeds; prints only lines that need attention + a summary
ids="C01 C02 C03 C04 C05 C06 C07 C08 C09 C10 C11 C12 C13 C14 C15 C16 C17 C18 C19"
for s in ${@:-1 2 3}; do
  for c in $ids; do
    out=$(VERIF_SEED=$s ./check $c --tier quick 2>&1); rc=$?
    line=$(echo "$out" | grep -E "^$c tier=" | tail -1 | cut -c1-140)
    echo "seed=$s $c rc=$rc $line"
    [ $rc -ne 0 ] && echo "$out" | grep -E "key=|VIOLATION|HARNESS|Error" | head -5
  done
done
