#!/venv/bin/python
import sys
sys.path.insert(0, '/verif'); 
from mc.framework import setup_paths; setup_paths()
import mpmath as mp
from mc.oracle import jets
mp.mp.dps = 60
worst = 0
pts = {'log': 0.7, 'sqrt': 0.7, 'arcsin': 0.3, 'arccos': 0.3, 'arctanh': 0.3, 'arccosh': 1.7, 'log1p': -0.3,
       'log2': 0.7, 'log10': 0.7}
mpf = dict(exp=mp.exp, log=mp.log, sqrt=mp.sqrt, sin=mp.sin, cos=mp.cos, tan=mp.tan, sinh=mp.sinh, cosh=mp.cosh,
           tanh=mp.tanh, arctan=mp.atan, arcsin=mp.asin, arccos=mp.acos, arcsinh=mp.asinh, arccosh=mp.acosh,
           arctanh=mp.atanh, expm1=mp.expm1, log1p=mp.log1p, cot=mp.cot, sec=mp.sec, csc=mp.csc, coth=mp.coth,
           sech=mp.sech, csch=mp.csch, exp2=lambda x: mp.power(2, x), log2=lambda x: mp.log(x, 2), log10=mp.log10)
for name, f in jets.UNARY.items():
    x0 = pts.get(name, 0.45)
    j = jets.eval_jet(('u', name, ('s', 1.5, ('x',))), x0 / 1.5, 10)
    for n in range(0, 9):
        with mp.workdps(90):
            ref = mp.diff(lambda t: mpf[name](1.5 * t), mp.mpf(x0 / 1.5), n)
        got = jets.derivative(j, n)
        rel = abs(got - ref) / max(abs(ref), mp.mpf(10) ** -30)
        worst = max(worst, rel)
        if rel > mp.mpf(10) ** -40:
            print('MISMATCH', name, n, got, ref)
# composite + power + division, complex point
prog = ('b', '/', ('p', ('u', 'sin', ('x',)), 3), ('b', '+', ('c', 2), ('p', ('x',), 2.5)))
j = jets.eval_jet(prog, 0.8, 9)
f = lambda t: mp.sin(t) ** 3 / (2 + t ** 2.5)
for n in range(8):
    ref = mp.diff(f, mp.mpf(0.8), n)
    rel = abs(jets.derivative(j, n) - ref) / abs(ref)
    worst = max(worst, rel)
j = jets.eval_jet(prog, 0.8 + 0.3j, 9)
for n in range(8):
    ref = mp.diff(f, mp.mpc(0.8, 0.3), n)
    rel = abs(jets.derivative(j, n) - ref) / abs(ref)
    worst = max(worst, rel)
print('worst relative deviation', mp.nstr(worst, 5))
assert worst < mp.mpf(10) ** -35
print('jets selftest ok')
