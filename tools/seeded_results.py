#!/venv/bin/python
"""Write /verif/seeded/RESULTS.md from the meta.json files."""
import glob
import json
import os

rows = []
for f in sorted(glob.glob('/verif/seeded/*/meta.json')):
    m = json.load(open(f))
    det = []
    for cid, r in sorted(m.get('checks', {}).items()):
        keys = [k.split(' cases=')[0].replace('key=', '') for k in r.get('keys', [])[:2]]
        det.append('%s: %s%s' % (cid, 'DETECTED' if r.get('detected') else 'missed', (' (' + '; '.join(keys) + ')') if keys else ''))
    rows.append((m['name'], m['property'], 'yes' if m.get('confirmed') else 'NO', '<br>'.join(det)))
with open('/verif/seeded/RESULTS.md', 'w') as fh:
    fh.write('# Independently seeded property-breaking changes\n\n'
             'Each change was written by a fresh sub-agent that saw only the property text and a scratch worktree. '
             '`confirmed` = the demonstration passes on the unmodified tree, fails with the patch, and the 104 pinned '
             'tests still pass with the patch (tools/confirm_seeded.py, scratch worktree, removed afterwards). '
             'Checks ran with VERIF_REPO_SRC pointing at the patched copy; /repo was never modified.\n\n')
    fh.write('| change | property | confirmed | quick checks |\n|---|---|---|---|\n')
    for r in rows:
        fh.write('| %s | %s | %s | %s |\n' % r)
print(len(rows), 'rows')
