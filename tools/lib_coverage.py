#!/venv/bin/python
"""Which executable lines of the library does the quick tier of the checks reach?  (measurement only)

usage: lib_coverage.py [ids...]   -> prints per-module line coverage and the unexecuted line ranges
Executable lines are taken from the code objects of the compiled modules (co_lines)."""
import glob
import os
import shutil
import subprocess
import sys

V = os.path.dirname(os.path.dirname(os.path.abspath(__file__)))
LIB = '/repo/src/numdifftools'
MODS = ['core.py', 'finite_difference.py', 'extrapolation.py', 'limits.py', 'step_generators.py', 'multicomplex.py',
        'fornberg.py', 'nd_scipy.py']


def executable_lines(path):
    code = compile(open(path).read(), path, 'exec')
    out = set()

    def walk(c):
        for _, _, line in c.co_lines():
            if line:
                out.add(line)
        for k in c.co_consts:
            if hasattr(k, 'co_lines'):
                walk(k)
    walk(code)
    return out


def main():
    ids = sys.argv[1:] or ['C%02d' % i for i in range(1, 20)]
    d = '/tmp/verif_cover'
    shutil.rmtree(d, ignore_errors=True)
    for c in ids:
        env = dict(os.environ, VERIF_COVER=d, VERIF_EVIDENCE_DIR='/tmp/verif_cover_ev', VERIF_REPLAY_DIR='/tmp/verif_cover_rp')
        r = subprocess.run([V + '/check', c, '--tier', 'quick'], env=env, capture_output=True, text=True)
        print(c, 'rc', r.returncode, flush=True)
    hit = set()
    for f in glob.glob(d + '/*.txt'):
        for line in open(f):
            m, l = line.strip().rsplit(':', 1)
            hit.add((m, int(l)))
    for m in MODS:
        ex = executable_lines(os.path.join(LIB, m))
        got = {l for (mm, l) in hit if mm == m}
        miss = sorted(ex - got)
        print('%-22s %4d / %4d executable lines reached (%.0f %%)' % (m, len(ex & got), len(ex), 100.0 * len(ex & got) / max(len(ex), 1)))
        # ranges
        rng, start, prev = [], None, None
        for l in miss:
            if start is None:
                start = prev = l
            elif l <= prev + 2:
                prev = l
            else:
                rng.append((start, prev))
                start = prev = l
        if start is not None:
            rng.append((start, prev))
        print('    not reached:', ', '.join('%d-%d' % r if r[0] != r[1] else str(r[0]) for r in rng))
    shutil.rmtree(d, ignore_errors=True)


if __name__ == '__main__':
    main()
