#!/venv/bin/python
"""Maintenance tool (never run by a check): runs the THOROUGH tier of the given checks on the unchanged tree
with VERIF_RECORD_KNOWN set and stores, for every known finding, the digests of the failing cases in
known_findings.json ('cases').  A known finding then absorbs exactly these cases; any other violating case
with the same key is reported.  The quick tier explores a subset of the thorough space, so its cases are
covered.  usage: record_known_cases.py C02 C17 ..."""
import json
import os
import subprocess
import sys
import tempfile

V = '/verif'
side = tempfile.mktemp(prefix='known_', dir='/tmp')
for cid in sys.argv[1:]:
    env = dict(os.environ, VERIF_RECORD_KNOWN=side, VERIF_EVIDENCE_DIR='/tmp/known_ev', VERIF_REPLAY_DIR='/tmp/known_rp')
    r = subprocess.run([V + '/check', cid, '--tier', 'thorough'], env=env, capture_output=True, text=True)
    print(cid, 'rc', r.returncode, r.stdout.strip().splitlines()[-1][:160] if r.stdout.strip() else r.stderr[-300:])
d = json.load(open(V + '/known_findings.json'))
rec = {}
if os.path.exists(side):
    for line in open(side):
        o = json.loads(line)
        for k, cs in o['cases'].items():
            rec.setdefault(k, set()).update(cs)
    os.remove(side)
n = 0
for e in d['findings']:
    if e.get('status') == 'known' and e['key'] in rec:
        e['cases'] = sorted(rec[e['key']])
        e['cases_recorded_from'] = 'thorough tier on the unchanged tree'
        n += 1
json.dump(d, open(V + '/known_findings.json', 'w'), indent=1)
print('updated', n, 'entries')
