#!/venv/bin/python
"""Confirm a property-breaking change produced by an independent sub-agent and record it.

usage: confirm_seeded.py <agent worktree> <name> <property id> [<check ids to run> ...]

In a fresh scratch worktree of /repo (removed afterwards): the demonstration must pass on the
unmodified source, fail with the patch applied, and the 104 pinned tests must still pass with the
patch.  Then the listed quick checks (default: the property's own) run against the patched copy via
VERIF_REPO_SRC.  Everything is written to /verif/seeded/<name>/ (patch.diff, demo.py, NOTES.md,
meta.json).  /repo itself is never modified.
"""
import json
import os
import shutil
import subprocess
import sys
import tempfile

VERIF = '/verif'


def sh(cmd, cwd=None, env=None, timeout=3600):
    r = subprocess.run(cmd, shell=True, cwd=cwd, env=env, capture_output=True, text=True, timeout=timeout)
    return r.returncode, (r.stdout + r.stderr)


def main():
    wt, name, prop = sys.argv[1:4]
    checks = sys.argv[4:] or [prop]
    tier = os.environ.get('TIER', 'quick')
    dest = os.path.join(VERIF, 'seeded', name)
    os.makedirs(dest, exist_ok=True)
    rc, diff = sh('git -C %s diff -- src' % wt)
    if not diff.strip():
        diff = open(os.path.join(wt, 'mutation.diff')).read()
    open(os.path.join(dest, 'patch.diff'), 'w').write(diff)
    for f in ('demo.py', 'NOTES.md'):
        if os.path.exists(os.path.join(wt, f)):
            shutil.copy(os.path.join(wt, f), os.path.join(dest, f))
    scratch = tempfile.mkdtemp(prefix='confirm_', dir='/tmp')
    os.rmdir(scratch)
    meta = dict(name=name, property=prop, source='independent sub-agent given only the property text and a scratch worktree')
    try:
        rc, out = sh('git -C /repo worktree add -q --detach %s HEAD' % scratch)
        assert rc == 0, out
        shutil.copy(os.path.join(dest, 'demo.py'), os.path.join(scratch, 'demo_seeded.py'))
        env = dict(os.environ, PYTHONPATH='src')
        rc0, out0 = sh('/venv/bin/python demo_seeded.py', cwd=scratch, env=env)
        rca, outa = sh('git apply %s' % os.path.join(dest, 'patch.diff'), cwd=scratch)
        assert rca == 0, 'patch does not apply: ' + outa
        rc1, out1 = sh('/venv/bin/python demo_seeded.py', cwd=scratch, env=env)
        os.remove(os.path.join(scratch, 'demo_seeded.py'))
        rcb, outb = sh('bash %s/tools/baseline.sh %s' % (VERIF, scratch))
        meta.update(demo_exit_unmodified=rc0, demo_exit_patched=rc1, demo_tail_patched=out1.strip().splitlines()[-3:],
                    baseline_with_patch=outb.strip().splitlines()[:3],
                    confirmed=bool(rc0 == 0 and rc1 != 0 and 'missing=0' in outb))
        results = {}
        for cid in checks:
            e = dict(os.environ, VERIF_REPO_SRC=os.path.join(scratch, 'src'), VERIF_EVIDENCE_DIR=os.path.join(scratch, '.ev'),
                     VERIF_REPLAY_DIR=os.path.join(scratch, '.rp'))
            rc, out = sh('%s/check %s --tier %s' % (VERIF, cid, tier), env=e)
            keys = [l.strip()[:300] for l in out.splitlines() if l.strip().startswith('key=')]
            results[cid] = dict(exit=rc, detected=(rc == 1), keys=keys[:8],
                                summary=[l for l in out.splitlines() if l.startswith(cid + ' tier=')][-1:])
        meta['checks'] = results
        meta['ran'] = ['demo on unmodified scratch worktree', 'git apply patch.diff', 'demo on patched worktree',
                       'tools/baseline.sh on patched worktree'] + ['./check %s --tier %s (VERIF_REPO_SRC=patched)' % (c, tier)
                                                                   for c in checks]
    finally:
        sh('git -C /repo worktree remove --force %s' % scratch)
        shutil.rmtree(scratch, ignore_errors=True)
    notes = os.path.join(dest, 'NOTES.md')
    if os.path.exists(notes):
        meta['needs_to_manifest'] = open(notes).read()[:1500]
    json.dump(meta, open(os.path.join(dest, 'meta.json'), 'w'), indent=1)
    print(json.dumps({k: meta[k] for k in ('name', 'property', 'confirmed', 'demo_exit_unmodified', 'demo_exit_patched',
                                           'baseline_with_patch')}, indent=0))
    for cid, r in results.items():
        print(cid, 'DETECTED' if r['detected'] else 'MISSED rc=%d' % r['exit'], r['keys'][:2])


if __name__ == '__main__':
    main()
