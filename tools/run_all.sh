#!/bin/bash
# usage: run_all.sh <tier> [ids...]   runs checks sequentially, prints one summary line per check
tier=${1:-quick}; shift
ids=${@:-C01 C02 C03 C04 C05 C06 C07 C08 C09 C10 C11 C12 C13 C14 C15 C16 C17 C18 C19}
for c in $ids; do
  s=$(date +%s); out=$(./check $c --tier $tier 2>&1); rc=$?; e=$(date +%s)
  echo "$c rc=$rc wall=$((e-s))s :: $(echo "$out" | grep -E "^$c tier=" | tail -1 | cut -c1-150)"
  echo "$out" | grep -E "VIOLATION|HARNESS|Traceback" | head -3
done
