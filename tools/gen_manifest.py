#!/venv/bin/python
"""Regenerate /verif/MANIFEST.json from the table below (single source of truth)."""
import json
import os
import subprocess

HERE = os.path.dirname(os.path.dirname(os.path.abspath(__file__)))

# id -> (engine, level category, technique, level text, level note, design ref)
CHECKS = {}

# sub-passes added after the first version (DESIGN.md 9.4 / 9.5): appended to the level note of each check
EXTRA = {
    'C01': 'Also enumerated: user generators with negative base steps and with one step too few; array calls in C and Fortran order (the latter with numpy-integer n / order, built positionally and used through a deep copy) and with a function whose values have a complex type with zero imaginary part; integer-valued float exponents.',
    'C02': 'Also: short / long / steep / single-step / negative-step generators; truthy spellings of full_output and full_output assigned after construction; Hessian / Hessdiag (C04 space), Jacobian / Gradient (C03 space incl. matrix-valued maps); the record of an object whose function was assigned after construction.',
    'C03': 'Also: matrix-shaped x0 and full-rank directions; view-returning selection maps; step_ratio and negative-step options on affine maps; read-only / memoised results; aliased periodic entries; maps leaving their domain at the largest steps; affine map + narrow far feature; forms of the user callable; step options given explicitly as None.',
    'C04': 'Also: quartic polynomials on four steps with scalar / negative / per-coordinate (ndarray, list, tuple + step_nom) base steps; buffered and read-only length-1 results; functions overflowing or leaving their domain in some coordinates; the function assigned through .fun after construction.',
    'C05': 'Also: coordinates +-1e15; configuration assigned after construction; what f returns (NaN / inf at x, NaN everywhere); Gradient at n x m points; complex points (point + 2j) with the real-step methods.',
    'C06': 'Also: configuration assigned after construction; several rule objects alive; numpy-integer n / order; the ratio as 0-d array / numpy scalar / float; the float application on step sequences of both signs and on complex-valued monomials.',
    'C07': 'Also: integer-typed ratios and sequences; object-reuse histories; a negative start step; positional construction; the second spelling extrapolate(); single columns as 1-d sequences; estimates real and >= 0.',
    'C08': 'Also: memory layouts, nested lists, integer dtype, masked arrays with nothing masked; functions returning object-dtype arrays or plain Python numbers; n = 0; forms of the extra-argument list; re-entrant use.',
    'C09': 'Also: in-place array arguments, aborted calls, multivariate classes, nested (re-entrant) use with own and shared generators, construction with step options next to a shared generator, the step attribute assigned after construction, a user function that emits warnings.',
    'C10': 'Also: negative, per-coordinate and complex base steps; integer-typed and complex points; numpy-integer n / order; reuse, interleaved requests and copies of used generators; the raw-order coupling with the rule length.',
    'C11': 'Also: the menu repeated after a suite of valid calls; tiny imaginary parts; unknown paths with legitimate companion options and at regular points; the cheap misuse kinds once more in an interpreter started with -O.',
    'C12': 'Also: base points exactly +-0, near -1, -1e4; arrays with a singular element; logaddexp / logaddexp2; ring operations and augmented assignment on two independent operands against exact rational arithmetic; the exponent as 0-d array / complex / numpy scalar / Fraction / Bicomplex.',
    'C13': 'Also: broadcast-compatible shapes; nested lists and tuples; 0-d arrays; all of V^3 once more with warnings turned into errors by the caller.',
    'C14': 'Also: model sequences scaled by 2^+-70, 2^+-150, 2^190, 2^-300; the Dea tree (one level less) under numpy floating-point traps (divide, over, invalid = raise); the table size set through the limexp attribute.',
    'C15': 'Also: call-order histories; node families with offsets 1e-10, spacing 400, gaps of 2^-58; every request repeated with numpy-scalar x0 and numpy-integer / bool n.',
    'C16': 'Also: call-order histories; grids scaled by 4096 and 2^-30; numpy-integer n, m and the grid as a list; column and two-column samples of a vector function.',
    'C17': 'Also: the radius search against a scripted environment (protocol model), explicit min_iter; one Taylor object at several expansion points, with a function returning length-1 arrays for scalar arguments; n as numpy integer.',
    'C18': 'Also: two distinct singular points in every layout; Residue on arrays of poles; read-only results; masked-array and list forms of z0; narrow g (width 3e-3 .. 2e-5); numpy-integer orders; Residue objects used through a deep copy.',
    'C19': 'Also: small-coordinate and integer points; hairline and half-open boxes; bounds as tuple / list / (2, n) array; forms of the extra-argument list and keywords named like options; wrapper reuse, re-entrant use of the same and of another wrapper object; positional construction.',
}


def add(pid, engine, cat, technique, text, note, ref):
    CHECKS[pid] = dict(engine=engine, cat=cat, technique=technique, text=text, note=note, ref=ref)


add('C05', 'E1', 'exploration',
    'bounded-exhaustive enumeration of configurations on the real code; exact predicates on every recorded argument of the user function',
    'Every (class, method, n, order, dimension, x) cell crossed with every step-generator option vector within a stated number of deviations from the defaults is executed on the real classes; every argument the user function receives is checked against exact admissibility predicates (one-sidedness, mirror symmetry, real part == x, distance <= width x largest generated step, coordinates moved). The property is a crisp invariant over a finite configuration space, so complete enumeration of that space is the right level; nothing is sampled.',
    'The main product uses real x on the 6-point pool x dimension 1..5; floating additions x+-h are given 4 ulp when matching mirror images; the largest step is read from the object\'s own public generator.',
    'DESIGN.md section 5/C05')

add('C06', 'E1', 'exploration',
    'bounded-exhaustive enumeration of (method, n, order, step_ratio) x monomial degrees; the real difference functions executed in exact Q(sqrt2,i) arithmetic, float weights converted exactly',
    'Every configuration of the stated grid is executed: the real LogRule.diff runs on t^k in exact arithmetic, the real float weights are converted exactly, the moment identities are evaluated exactly and compared with n! delta_kn within a conditioning-scaled allowance; the support of the surviving error powers is checked against method_order/richardson_step; the float rule.apply is checked for orientation. Complete enumeration of the finite configuration grid is the natural level: the statement is a per-configuration algebraic identity.',
    'n, order <= 10 and 10 step ratios (6 and <= 8 in quick); numerically singular moment systems (100 eps kappa >= 0.5) are checked structurally only; _SQRT_J enters at its binary64 value.',
    'DESIGN.md section 5/C06')
add('C07', 'E1', 'exploration',
    'bounded-exhaustive enumeration of (ratio, spacing, order, num_terms, length, columns) on the real Richardson class; exact Gaussian-rational identities + exact model sequences',
    'Every cell of the stated grid (8 real and 12 complex ratios) is executed on the real Richardson class: weights converted exactly and the annihilation identities evaluated in exact Gaussian-rational arithmetic; model sequences formed exactly, rounded once and pushed through __call__; shapes, estimates, column independence checked on every case.',
    'ratios from a fixed grid (not all reals); allowance 100 eps kappa |w|_1 (weights) / 1e3 eps kappa |w|_1 scale (behaviour); singular systems skipped for the numeric part.',
    'DESIGN.md section 5/C07')
add('C10', 'E1+E2', 'exploration',
    'deviation-bounded exhaustive enumeration of step-generator option vectors x class x method x n x order x x against an independent closed-form model; exhaustive call sequences (depth <= 3) on a reused generator',
    'All option vectors within 2 (quick) / 3 (thorough) deviations from the documented defaults are crossed with all generator classes, methods, (n, order) pairs and the x pool and compared to 4 ulp with a closed-form model typed in from the docstrings; every (method, n <= 10, order <= 10) coupling cell (default count >= rule length, Derivative does not raise) and every sequence of <= 3 calls on one reused generator instance is executed.',
    'option values come from fixed menus; default_scale is restated independently in the model; complex spiral steps get an extra |e| eps phase allowance for the float complex power.',
    'DESIGN.md section 5/C10')

add('C12', 'E1', 'exploration',
    'bounded-exhaustive enumeration of every Bicomplex function/operator (and all depth-2 compositions) x base points x perturbation patterns on the real class; reference = idempotent decomposition in 120-digit arithmetic, component-wise Taylor-majorant allowance',
    'Every function and operator the class defines, reflected forms, integer/real/bicomplex powers and (thorough) all depth-2 compositions are executed on the real class at every base point of the pool with all 32 sign/size perturbation patterns and the step shapes the multicomplex method itself uses; each of the four components is compared with the holomorphic extension within 1e3 eps times the absolute Taylor majorant of that component; z2=0 reduction and (2,3)-array arguments included. Complete enumeration of this finite alphabet is what the statement (for every function, every argument near the real domain) can be decided on.',
    'base points and perturbation sizes come from fixed pools; perturbations beyond a quarter of the (conservatively estimated) analyticity radius are skipped; allowance constant C=1e3 applied to the scale oracle S_k/k! (DESIGN 4.2).',
    'DESIGN.md section 5/C12')
add('C13', 'E1', 'exploration',
    'bounded-exhaustive enumeration of float triples (all 24^3 special-value triples, all geometric transients of the grid, arrays) on the real dea3; exact Shanks transform in rationals with a derived running-error bound',
    'All triples of the special-value alphabet (including ties, zeros, 1e+-150), all geometric transients of the (L, a, q, k) grid formed exactly and rounded once, and arrays of four shapes with and without symmetric=True are pushed through the real dea3 and compared with the exact Shanks transform of the float triple; guards evaluated exactly; totality, input immutability, elementwise and symmetric trimming checked on every case.',
    'values restricted to the stated alphabets (|x| in [1e-300, 1e150] or 0); accuracy claimed where the relative error of the computed sss is <= 1/4, conditioning of the transient bounded by exact partial derivatives.',
    'DESIGN.md section 5/C13')
add('C14', 'E2', 'model_checking',
    'explicit-state search over term sequences on the real Dea/EpsAlg objects (deepcopy snapshots, exact state digests), every transition checked against invariants and an exact rational epsilon table',
    'The objects are stateful and fed one term at a time; the state space is explored exhaustively: every sequence over an 8-symbol alphabet to depth 6 (7 thorough) for each table size, every short prefix followed by every constant or 2-periodic continuation to 60 (200) terms for limexp up to 60, every model sequence L + sum a_i q_i^n on every prefix. States are merged only on an exact digest of the object fields, so merged states have identical futures. Every transition is a real method call, so there is no model/implementation gap to validate.',
    'terms stay normal and of moderate magnitude; alphabets and table sizes as stated; Dea vs dea3 error estimates are compared outside the documented guards only (inside them the two routines document different conventions).',
    'DESIGN.md section 5/C14')
add('C19', 'E1', 'exploration',
    'bounded-exhaustive enumeration of (n, m, map, method, step, bounds pattern, args/kwds) on the real nd_scipy wrappers with a recording user function; closed-form Jacobians and exact box predicates',
    'Every cell of the stated product is executed on the real wrappers with a recording function: shapes, closed-form Jacobian entries within a derived truncation+rounding allowance, argument forwarding by identity, and every recorded evaluation point inside the box exactly.',
    'dimensions n <= 6, m <= 5, maps from the affine/ridge families; degenerate equal bounds: the constrained column is not claimed for real-step methods (scipy documents that no step fits).',
    'DESIGN.md section 5/C19')

add('C08', 'E1', 'exploration',
    'bounded-exhaustive enumeration of shapes x target positions x replacement patterns x (function, method, n, order) on the real Derivative; oracle = bit-identity (NaN-aware) of the target element',
    'For every shape of the menu, every target position and every replacement pattern of the other elements (all others := v; one other := v) from a 10-value pool, the real Derivative is called and the target element must be bit-identical under every replacement, the result shape must equal the input shape, the element must equal the scalar call (bit-identical for real-step methods, within the two error estimates for complex-step methods), and sentinel args/kwds must arrive unchanged at every evaluation.',
    'exactly rounded test functions only; value pool of 10 numbers including an element that makes every step NaN; quick tier uses a rotated subset of targets/positions for the large shapes.',
    'DESIGN.md section 5/C08')
add('C09', 'E2+E3', 'model_checking',
    'explicit-state BFS over operation histories of the real objects (exact-digest quotient) + stateless pre-emption-bounded exploration of real threads under a sys.monitoring baton scheduler; oracle = bit-identity with fresh-interpreter references',
    'The property quantifies over histories and schedules. Histories: every sequence of {construct (own/shared generator), call, set n/order/method, restore, clear cache, warm cache} over a pool of 6 Derivative and 5 Hessdiag/Gradient/Hessian/Jacobian configurations on two live objects is explored breadth-first to the stated depth (plus long single-object histories with in-place updated array arguments and calls aborted by an exception of the user function) on the exact-digest quotient of all library objects and module-level containers; every call is compared bit for bit with a fresh interpreter doing only that call. Schedules: every interleaving of 2 (3) real threads with <= 1 (2) pre-emptions at every executed library line (instruction granularity with 1 pre-emption in the thorough tier) is executed under a cooperative scheduler; per-thread observations and the final rule cache are compared with the references. Replays of schedule prefixes must be identical (ownership of nondeterminism is checked). Re-entrancy: every compatible (outer, inner) pair of the pool with the inner object used inside the outer object\'s function; inner calls must equal the same calls made alone and the outer result must equal the outer object run on the recorded table of inner values.',
    'history depth 3 (quick) / 4 (thorough) on two objects, 5 / 7 on one object; at most 3 threads and 2 pre-emptions; cooperative scheduling does not model parallelism inside numpy C code; a free-running 16-thread pass is auxiliary evidence only.',
    'DESIGN.md section 5/C09')
add('C11', 'E1', 'exploration',
    'bounded-exhaustive enumeration of the misuse menu (classes x complex-step methods x complex x / complex f x dimensions, wrong result counts, multicomplex n>2, too few steps for every (method, n, order), size mismatches, unknown paths) on the real API; oracle = the call raises ValueError',
    'Every element of the finite misuse menu is executed on the real classes and functions; returning any value or raising another exception type is a violation; valid controls are executed alongside to make sure the harness is not vacuous.',
    'menu sizes as stated in the evidence rule; functions whose output length changes between evaluations are outside the statement; Jacobian/Gradient accept any output length.',
    'DESIGN.md section 5/C11')
add('C15', 'E1', 'exploration',
    'bounded-exhaustive enumeration of node families, all permutations of small node sets, expansion points and orders on the real fd_weights_all; exact Lagrange-derivative weights in rational arithmetic',
    'All node families of sizes 2..14 (plus three scale families: offsets of 1e-10, spacing 400, nearly symmetric stencils), all permutations up to size 5 (6-7 thorough), five expansion points and every n < len(x) are pushed through the real fd_weights_all/fd_weights and compared entrywise with weights computed by multiplying out the Lagrange basis polynomials in exact rationals (not Fornberg recursion), with a cancellation-free conditioning scale per entry.',
    'allowance 100 eps S_kj with S the cancellation-free magnitude of the same weight (derived bound ~10 m u S); node sets from fixed families.',
    'DESIGN.md section 5/C15')
add('C16', 'E1', 'exploration',
    'bounded-exhaustive enumeration of (n, m, grid length, grid kind, direction, monomial degree, centre) on the real fd_derivative; exact polynomial derivatives at every grid point',
    'Every cell of the product is executed and every grid point (all boundary points at both ends, first/last interior point) is compared with the exact derivative of the monomial computed in rationals on the float grid, with the exact stencil weights providing the conditioning scale.',
    'grids from four deterministic families (plus integer grids, and three families scaled by 4096 / 2^-30); allowance 100 eps sum S_j |f_j| over the documented stencil.',
    'DESIGN.md section 5/C16')
add('C17', 'E1+E2', 'exploration',
    'bounded-exhaustive enumeration of (function, z0, n, initial radius, step_ratio, num_extrap) on the real taylor/derivative with exact complex jets; deviation-bounded enumeration of scripted environment answers replayed against the real Taylor.__call__ and a reference model of the radius-search protocol',
    'Accuracy: every cell of the stated product is executed; clean-status results are compared coefficient by coefficient with exact series coefficients within K1 x estimate + K2 x eps x max|f|/R^k. Protocol: _check_fft/_poor_convergence are replaced by scripted answers and every answer sequence within 3 deviations is replayed against the real code and compared with a reference model (iterations, failed, degenerate, radius).',
    'function family of 13 members, 5 expansion points; K1, K2 frozen; n >= 20 cells are dominated by the recorded F14 findings.',
    'DESIGN.md section 5/C17')
add('C18', 'E1', 'exploration',
    'bounded-exhaustive enumeration of g x kernel x z0 x side x path x order x step_ratio on the real Limit/Residue, all singular/regular patterns of arrays up to length 3; oracle g(z0) in multiprecision',
    'Every cell of the product is executed on the real Limit and Residue; |value - g(z0)| <= K1 x estimate + floor; regular points must be returned bit-identically with zero estimate; array shapes kept.',
    'kernels restricted to well-conditioned removable singularities; K1, K2 frozen; three (order, ratio 16) cells are recorded findings (F13).',
    'DESIGN.md section 5/C18')

add('C01', 'E1', 'exploration',
    'bounded-exhaustive enumeration of an expression grammar (simplest first, depth <= 3) x point pool x all 240 (method, n, order) configurations x generator menu on the real Derivative; oracle = 60-digit truncated Taylor arithmetic on the same expression, envelope from an oracle-side local scale',
    'Every program of the grammar (115 depth-1 programs in the quick tier; depth-2 compositions and binary combinations, depth-3 chains and complex-valued p+iq / exp(i phi) p variants in the thorough tier) is differentiated at every pool point with every (method, n, order), as scalar and as array call, with the default and a menu of user generators. The exact derivative comes from multiprecision jets of the same expression; the local scale S_n, the analyticity radius and the evaluation noise are oracle-side quantities; accuracy is claimed only where every documented sample point lies inside the analyticity disc (class A). n = 0 must return f(x) bit for bit; any exception is a violation.',
    'programs deeper than 3, points off the 11-point pool and option vectors off the menu are not covered; the envelope constants E (default generators) and EU (user generators) are calibrated numbers frozen in envelopes.json; the analyticity radius is a conservative majorant bound.',
    'DESIGN.md sections 4.1, 4.2, 5/C01')
add('C02', 'E1', 'exploration',
    'same enumeration as C01 with full_output=True plus the Hessian/Hessdiag space of C04; oracle = exact derivatives (jets / closed forms) for honesty, exact record invariants',
    'On every call of the C01 space (plus a long steep user generator that admits no accuracy claim) and of the C04 space: err <= K1 x error_estimate + F x S_n on class-A cases (K1 = 10, F = max(E/100, 1e3 eps); K1 = 100 on the multivariate classes), f_value == f(x) bit for bit, estimate finite and >= 0 wherever the result is finite, final_step within the generated steps, one estimate and one final step per result entry, broadcast-compatible with the result.',
    'constants frozen in envelopes.json; Gradient/Jacobian estimates are exercised through C03 (directionaldiff comparison) rather than here.',
    'DESIGN.md section 5/C02')
add('C03', 'E1', 'exploration',
    'bounded-exhaustive enumeration of (n, m, k, map family, method, order, point, input form) on the real Jacobian / Gradient / directionaldiff; closed-form partial derivatives in multiprecision, envelope from the scale oracle on one-variable restrictions',
    'Every cell of the product is executed: exact result shapes (m, n) / (m, n, k), every entry within the Derivative envelope E(method, 1) x S_1 of the restriction t -> f_i(x + t e_j), affine maps exact to 1e4 eps (|A||x| + |b| + |A|), Gradient == Jacobian row bit for bit, directionaldiff == Gradient . v/|v| within the two error estimates plus floor.',
    'n <= 6 (8), m <= 4 (6), k <= 3 (4); maps from the affine / ridge families; class-A entries only for the accuracy claim.',
    'DESIGN.md section 5/C03')
add('C04', 'E1', 'exploration',
    'bounded-exhaustive enumeration of (function family, n, point, method, order, generator) on the real Hessian / Hessdiag; closed-form Hessians in multiprecision, bitwise symmetry, envelope from the scale oracle on line restrictions',
    'Every cell is executed: H.shape == (n, n), H == H.T bitwise, entries within EH(method) x S (S from the four line restrictions of a mixed partial), quadratics exact to 1e4 eps x scale, Hessdiag within EHD(method, order) of the exact diagonal, |diag(Hessian) - Hessdiag| within K1 x (sum of estimates) + floor; length-1-array-valued and complex-valued f included.',
    'n <= 4 (6); families quad / exp+sin+quad / ridge products; constants frozen in envelopes.json.',
    'DESIGN.md section 5/C04')

NOT_YET = {}

ENGINES = [
    dict(name='E1', path='mc/framework.py', kind_free_text='stateless product/grammar enumerator with deviation-bounded option vectors, sharded over forked workers; runs the real library on every enumerated case',
         serves_properties=[]),
    dict(name='E2', path='mc/engine_states.py', kind_free_text='explicit-state search (BFS/DFS) over operation histories of the real objects with exact state digests',
         serves_properties=[]),
    dict(name='E3', path='mc/engine_sched.py', kind_free_text='cooperative baton scheduler on sys.monitoring; pre-emption-bounded DFS over interleavings of real threads',
         serves_properties=[]),
]


def main():
    props = [json.loads(l) for l in open(os.path.join(HERE, 'properties.jsonl'))]
    ids = [p['id'] for p in props]
    checks = []
    for pid in ids:
        if pid not in CHECKS:
            continue
        c = CHECKS[pid]
        checks.append(dict(
            property_id=pid,
            quick_cmd='./check %s --tier quick' % pid,
            thorough_cmd='./check %s --tier thorough' % pid,
            evidence_file='evidence/%s.json' % pid,
            replay_cmd_template='./check %s --replay {path}' % pid,
            engine=c['engine'],
            level_claimed=dict(category=c['cat'], text=c['text'], design_ref=c['ref']),
            level_note=c['note'] + (' ' + EXTRA[pid] if pid in EXTRA else ''),
            technique=c['technique'],
        ))
        for e in ENGINES:
            if e['name'] in c['engine'] and pid not in e['serves_properties']:
                e['serves_properties'].append(pid)
    na = [dict(property_id=pid, reason=NOT_YET.get(pid, 'check not built yet in this tree (see DESIGN.md section 5 for the planned bounded-exhaustive formulation); not claimed until its driver exists'))
          for pid in ids if pid not in CHECKS]
    try:
        hooks_commits = subprocess.run(['git', '-C', '/repo', 'log', '--format=%H', '--grep=^hook:'],
                                       capture_output=True, text=True).stdout.split()
    except Exception:
        hooks_commits = []
    man = dict(
        version=1,
        setup_cmd='/venv/bin/pip install --no-index --find-links /opt/veriftools/wheels --target /verif/.deps mpmath >/dev/null && /verif/check --help >/dev/null',
        hooks=dict(guard='NUMDIFFTOOLS_VERIF',
                   enable='no source hooks are needed: checks import /repo/src directly and observe through wrappers, module-global replacement and sys.monitoring',
                   baseline_off_cmd='cd /repo && /venv/bin/python -m pytest -ra -q -p no:cacheprovider --timeout=900 --continue-on-collection-errors',
                   source_commits=hooks_commits, add_only=True),
        engines=[e for e in ENGINES if e['serves_properties']],
        checks=checks,
        not_applicable=na,
        notes='All checks run the real library from /repo/src (current working tree) in fresh /venv/bin/python processes. See DESIGN.md.',
    )
    with open(os.path.join(HERE, 'MANIFEST.json'), 'w') as fh:
        json.dump(man, fh, indent=1)
    print('checks:', [c['property_id'] for c in checks], 'not_applicable:', len(na))


if __name__ == '__main__':
    main()
