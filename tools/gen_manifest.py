#!/venv/bin/python
"""Regenerate /verif/MANIFEST.json from the table below (single source of truth)."""
import json
import os
import subprocess

HERE = os.path.dirname(os.path.dirname(os.path.abspath(__file__)))

# id -> (engine, level category, technique, level text, level note, design ref)
CHECKS = {}


def add(pid, engine, cat, technique, text, note, ref):
    CHECKS[pid] = dict(engine=engine, cat=cat, technique=technique, text=text, note=note, ref=ref)


add('C05', 'E1', 'exploration',
    'bounded-exhaustive enumeration of configurations on the real code; exact predicates on every recorded argument of the user function',
    'Every (class, method, n, order, dimension, x) cell crossed with every step-generator option vector within a stated number of deviations from the defaults is executed on the real classes; every argument the user function receives is checked against exact admissibility predicates (one-sidedness, mirror symmetry, real part == x, distance <= width x largest generated step, coordinates moved). The property is a crisp invariant over a finite configuration space, so complete enumeration of that space is the right level; nothing is sampled.',
    'Real-valued x only on the 4-point pool x dimension 1..5; floating additions x+-h are given 4 ulp when matching mirror images; the largest step is read from the object\'s own public generator.',
    'DESIGN.md section 5/C05')

add('C06', 'E1', 'exploration',
    'bounded-exhaustive enumeration of (method, n, order, step_ratio) x monomial degrees; the real difference functions executed in exact Q(sqrt2,i) arithmetic, float weights converted exactly',
    'Every configuration of the stated grid is executed: the real LogRule.diff runs on t^k in exact arithmetic, the real float weights are converted exactly, the moment identities are evaluated exactly and compared with n! delta_kn within a conditioning-scaled allowance; the support of the surviving error powers is checked against method_order/richardson_step; the float rule.apply is checked for orientation. Complete enumeration of the finite configuration grid is the natural level: the statement is a per-configuration algebraic identity.',
    'n, order <= 10 and 10 step ratios (6 and <= 8 in quick); numerically singular moment systems (100 eps kappa >= 0.5) are checked structurally only; _SQRT_J enters at its binary64 value.',
    'DESIGN.md section 5/C06')
add('C07', 'E1', 'exploration',
    'bounded-exhaustive enumeration of (ratio, spacing, order, num_terms, length, columns) on the real Richardson class; exact Gaussian-rational identities + exact model sequences',
    'Every cell of the stated grid (8 real and 12 complex ratios) is executed on the real Richardson class: weights converted exactly and the annihilation identities evaluated in exact Gaussian-rational arithmetic; model sequences formed exactly, rounded once and pushed through __call__; shapes, estimates, column independence checked on every case.',
    'ratios from a fixed grid (not all reals); allowance 100 eps kappa |w|_1 (weights) / 1e3 eps kappa |w|_1 scale (behaviour); singular systems skipped for the numeric part.',
    'DESIGN.md section 5/C07')
add('C10', 'E1+E2', 'exploration',
    'deviation-bounded exhaustive enumeration of step-generator option vectors x class x method x n x order x x against an independent closed-form model; exhaustive call sequences (depth <= 3) on a reused generator',
    'All option vectors within 2 (quick) / 3 (thorough) deviations from the documented defaults are crossed with all generator classes, methods, (n, order) pairs and the x pool and compared to 4 ulp with a closed-form model typed in from the docstrings; every (method, n <= 10, order <= 10) coupling cell (default count >= rule length, Derivative does not raise) and every sequence of <= 3 calls on one reused generator instance is executed.',
    'option values come from fixed menus; default_scale is restated independently in the model; complex spiral steps get an extra |e| eps phase allowance for the float complex power.',
    'DESIGN.md section 5/C10')

add('C12', 'E1', 'exploration',
    'bounded-exhaustive enumeration of every Bicomplex function/operator (and all depth-2 compositions) x base points x perturbation patterns on the real class; reference = idempotent decomposition in 120-digit arithmetic, component-wise Taylor-majorant allowance',
    'Every function and operator the class defines, reflected forms, integer/real/bicomplex powers and (thorough) all depth-2 compositions are executed on the real class at every base point of the pool with all 32 sign/size perturbation patterns and the step shapes the multicomplex method itself uses; each of the four components is compared with the holomorphic extension within 1e3 eps times the absolute Taylor majorant of that component; z2=0 reduction and (2,3)-array arguments included. Complete enumeration of this finite alphabet is what the statement (for every function, every argument near the real domain) can be decided on.',
    'base points and perturbation sizes come from fixed pools; perturbations beyond a quarter of the (conservatively estimated) analyticity radius are skipped; allowance constant C=1e3 applied to the scale oracle S_k/k! (DESIGN 4.2).',
    'DESIGN.md section 5/C12')
add('C13', 'E1', 'exploration',
    'bounded-exhaustive enumeration of float triples (all 24^3 special-value triples, all geometric transients of the grid, arrays) on the real dea3; exact Shanks transform in rationals with a derived running-error bound',
    'All triples of the special-value alphabet (including ties, zeros, 1e+-150), all geometric transients of the (L, a, q, k) grid formed exactly and rounded once, and arrays of four shapes with and without symmetric=True are pushed through the real dea3 and compared with the exact Shanks transform of the float triple; guards evaluated exactly; totality, input immutability, elementwise and symmetric trimming checked on every case.',
    'values restricted to the stated alphabets (|x| in [1e-300, 1e150] or 0); accuracy claimed where the relative error of the computed sss is <= 1/4, conditioning of the transient bounded by exact partial derivatives.',
    'DESIGN.md section 5/C13')
add('C14', 'E2', 'model_checking',
    'explicit-state search over term sequences on the real Dea/EpsAlg objects (deepcopy snapshots, exact state digests), every transition checked against invariants and an exact rational epsilon table',
    'The objects are stateful and fed one term at a time; the state space is explored exhaustively: every sequence over an 8-symbol alphabet to depth 6 (7 thorough) for each table size, every short prefix followed by every constant or 2-periodic continuation to 60 (200) terms for limexp up to 60, every model sequence L + sum a_i q_i^n on every prefix. States are merged only on an exact digest of the object fields, so merged states have identical futures. Every transition is a real method call, so there is no model/implementation gap to validate.',
    'terms stay normal and of moderate magnitude; alphabets and table sizes as stated; Dea vs dea3 error estimates are compared outside the documented guards only (inside them the two routines document different conventions).',
    'DESIGN.md section 5/C14')
add('C19', 'E1', 'exploration',
    'bounded-exhaustive enumeration of (n, m, map, method, step, bounds pattern, args/kwds) on the real nd_scipy wrappers with a recording user function; closed-form Jacobians and exact box predicates',
    'Every cell of the stated product is executed on the real wrappers with a recording function: shapes, closed-form Jacobian entries within a derived truncation+rounding allowance, argument forwarding by identity, and every recorded evaluation point inside the box exactly.',
    'dimensions n <= 6, m <= 5, maps from the affine/ridge families; degenerate equal bounds: the constrained column is not claimed for real-step methods (scipy documents that no step fits).',
    'DESIGN.md section 5/C19')

NOT_YET = {}

ENGINES = [
    dict(name='E1', path='mc/framework.py', kind_free_text='stateless product/grammar enumerator with deviation-bounded option vectors, sharded over forked workers; runs the real library on every enumerated case',
         serves_properties=[]),
    dict(name='E2', path='mc/engine_states.py', kind_free_text='explicit-state search (BFS/DFS) over operation histories of the real objects with exact state digests',
         serves_properties=[]),
    dict(name='E3', path='mc/engine_sched.py', kind_free_text='cooperative baton scheduler on sys.monitoring; pre-emption-bounded DFS over interleavings of real threads',
         serves_properties=[]),
]


def main():
    props = [json.loads(l) for l in open(os.path.join(HERE, 'properties.jsonl'))]
    ids = [p['id'] for p in props]
    checks = []
    for pid in ids:
        if pid not in CHECKS:
            continue
        c = CHECKS[pid]
        checks.append(dict(
            property_id=pid,
            quick_cmd='./check %s --tier quick' % pid,
            thorough_cmd='./check %s --tier thorough' % pid,
            evidence_file='evidence/%s.json' % pid,
            replay_cmd_template='./check %s --replay {path}' % pid,
            engine=c['engine'],
            level_claimed=dict(category=c['cat'], text=c['text'], design_ref=c['ref']),
            level_note=c['note'],
            technique=c['technique'],
        ))
        for e in ENGINES:
            if e['name'] in c['engine'] and pid not in e['serves_properties']:
                e['serves_properties'].append(pid)
    na = [dict(property_id=pid, reason=NOT_YET.get(pid, 'check not built yet in this tree (see DESIGN.md section 5 for the planned bounded-exhaustive formulation); not claimed until its driver exists'))
          for pid in ids if pid not in CHECKS]
    try:
        hooks_commits = subprocess.run(['git', '-C', '/repo', 'log', '--format=%H', '--grep=^hook:'],
                                       capture_output=True, text=True).stdout.split()
    except Exception:
        hooks_commits = []
    man = dict(
        version=1,
        setup_cmd='/venv/bin/pip install --no-index --find-links /opt/veriftools/wheels --target /verif/.deps mpmath >/dev/null && /verif/check --help >/dev/null',
        hooks=dict(guard='NUMDIFFTOOLS_VERIF',
                   enable='no source hooks are needed: checks import /repo/src directly and observe through wrappers, module-global replacement and sys.monitoring',
                   baseline_off_cmd='cd /repo && /venv/bin/python -m pytest -ra -q -p no:cacheprovider --timeout=900 --continue-on-collection-errors',
                   source_commits=hooks_commits, add_only=True),
        engines=[e for e in ENGINES if e['serves_properties']],
        checks=checks,
        not_applicable=na,
        notes='All checks run the real library from /repo/src (current working tree) in fresh /venv/bin/python processes. See DESIGN.md.',
    )
    with open(os.path.join(HERE, 'MANIFEST.json'), 'w') as fh:
        json.dump(man, fh, indent=1)
    print('checks:', [c['property_id'] for c in checks], 'not_applicable:', len(na))


if __name__ == '__main__':
    main()
