#!/bin/bash
# Runs the pinned baseline on a tree (default /repo) and reports which stable tests do not pass.
R=${1:-/repo}
OUT=$(mktemp /tmp/junit.XXXXXX.xml)
(cd $R && /venv/bin/python -m pytest -ra -q -p no:cacheprovider --timeout=900 --continue-on-collection-errors --junitxml=$OUT >/dev/null 2>&1)
/venv/bin/python - "$OUT" <<'PY'
import sys, json, xml.etree.ElementTree as ET
stable=set(json.load(open('/root/.vp/BASELINE.json'))['stable_pass'])
t=ET.parse(sys.argv[1]); ok=set(); bad=set()
for tc in t.iter('testcase'):
    name=tc.get('classname','')+'::'+tc.get('name','')
    failed=any(ch.tag in ('failure','error','skipped') for ch in tc)
    (bad if failed else ok).add(name)
missing=sorted(s for s in stable if s not in ok)
print('stable=%d passing=%d missing=%d'%(len(stable),len(stable&ok),len(missing)))
for m in missing: print('  NOT PASSING:',m)
PY
rm -f $OUT
