#!/bin/bash
# usage: try_mutant.sh <patchfile> <check ids...>   applies patch to /repo, runs quick checks, reverts
set -u
P=$1; shift
git -C /repo apply "$P" || { echo "patch failed"; exit 3; }
for id in "$@"; do
  out=$(/verif/check $id --tier ${TIER:-quick} 2>&1); rc=$?
  echo "== $id rc=$rc"; echo "$out" | grep -E "key=|VIOLATION|HARNESS|KNOWN" | head -${LINES_MAX:-6}
done
git -C /repo checkout -- .
