#!/bin/bash
# usage: try_mutant.sh <patchfile|-R:commit> <check ids...>
# Applies the patch to a PRIVATE copy of /repo/src (never to /repo), runs the quick checks against
# it (VERIF_REPO_SRC), prints the verdict lines, removes the copy.  "-R:<commit>" reverts that
# commit of /repo in the copy (used to show that a fixed defect would be reported again).
set -u
P=$1; shift
D=$(mktemp -d /tmp/mutsrc.XXXXXX)
cp -r /repo/src "$D/src"
if [[ "$P" == -R:* ]]; then
  git -C /repo show "${P#-R:}" -- src | (cd "$D" && patch -R -p1 -s) || { echo "revert failed"; rm -rf "$D"; exit 3; }
else
  (cd "$D" && patch -p1 -s < "$P") || { echo "patch failed"; rm -rf "$D"; exit 3; }
fi
for id in "$@"; do
  out=$(VERIF_REPO_SRC="$D/src" VERIF_EVIDENCE_DIR="$D/evidence" /verif/check $id --tier ${TIER:-quick} 2>&1); rc=$?
  echo "== $id rc=$rc"; echo "$out" | grep -E "key=|HARNESS|KNOWN|Error" | cut -c1-${WIDTH:-260} | head -${LINES_MAX:-6}
done
rm -rf "$D"
