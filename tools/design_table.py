#!/venv/bin/python
"""Print the `cases, wall` columns of DESIGN.md section 9.5 from evidence directories.

usage: tools/design_table.py <quick evidence dir> <thorough evidence dir>
"""
import json
import os
import sys


def row(d, pid):
    p = os.path.join(d, pid + '.json')
    if not os.path.exists(p):
        return '-'
    e = json.load(open(p))
    cov = e.get('coverage', {})
    ev = cov.get('evaluations') or cov.get('transitions') or cov.get('states') or 0
    wall = e.get('wall_s')
    return '%.1e (%s), %s s, violations %s' % (ev, e.get('tier', '?'), ('%.0f' % wall) if wall else '?', e.get('violations'))


def main():
    q, t = sys.argv[1], sys.argv[2]
    for i in range(1, 20):
        pid = 'C%02d' % i
        print('| %s | %s | %s |' % (pid, row(q, pid), row(t, pid)))


if __name__ == '__main__':
    main()
