#!/venv/bin/python
"""Run the quick checks that can be affected by each seeded change (chosen by the modules the patch touches)
against a private patched copy of /repo/src and tabulate the exit codes.  The point is robustness: no check
may end with a harness error (exit 2) on a modified library; it either stays silent or reports a violation.

usage: cross_matrix.py [name-prefix ...]      writes seeded/CROSS.md
"""
import os
import shutil
import subprocess
import sys
import tempfile

VERIF = os.path.dirname(os.path.dirname(os.path.abspath(__file__)))
BY_MODULE = {
    'finite_difference.py': 'C01 C02 C03 C04 C05 C06 C08 C09 C11'.split(),
    'extrapolation.py': 'C01 C02 C07 C13 C14 C17 C18'.split(),
    'limits.py': 'C01 C02 C08 C10 C18'.split(),
    'step_generators.py': 'C01 C05 C09 C10'.split(),
    'fornberg.py': 'C15 C16 C17'.split(),
    'multicomplex.py': 'C01 C12'.split(),
    'nd_scipy.py': 'C19'.split(),
    'core.py': 'C01 C02 C03 C04 C05 C08 C09 C11'.split(),
}


def main():
    names = sorted(d for d in os.listdir(os.path.join(VERIF, 'seeded'))
                   if os.path.isfile(os.path.join(VERIF, 'seeded', d, 'patch.diff')))
    if sys.argv[1:]:
        names = [n for n in names if any(n.startswith(p) for p in sys.argv[1:])]
    rows = []
    for name in names:
        patch = os.path.join(VERIF, 'seeded', name, 'patch.diff')
        text = open(patch).read()
        checks = sorted({c for mod, cs in BY_MODULE.items() if mod in text for c in cs})
        d = tempfile.mkdtemp(prefix='cross_', dir='/tmp')
        try:
            shutil.copytree('/repo/src', os.path.join(d, 'src'))
            r = subprocess.run('patch -p1 -s < %s' % patch, shell=True, cwd=d, capture_output=True, text=True)
            if r.returncode:
                rows.append((name, {'patch': 'does not apply'}))
                continue
            res = {}
            for c in checks:
                env = dict(os.environ, VERIF_REPO_SRC=os.path.join(d, 'src'), VERIF_EVIDENCE_DIR=os.path.join(d, 'ev'),
                           VERIF_REPLAY_DIR=os.path.join(d, 'rp'))
                r = subprocess.run([os.path.join(VERIF, 'check'), c, '--tier', 'quick'], env=env, capture_output=True, text=True)
                res[c] = r.returncode
                if r.returncode not in (0, 1):
                    print('HARNESS', name, c, (r.stdout + r.stderr)[-1500:], flush=True)
            rows.append((name, res))
            print(name, ' '.join('%s=%d' % kv for kv in sorted(res.items())), flush=True)
        finally:
            shutil.rmtree(d, ignore_errors=True)
    with open(os.path.join(VERIF, 'seeded', 'CROSS.md'), 'w') as fh:
        fh.write('# Quick checks against every seeded change (exit codes; 1 = violation reported, 0 = silent, 2 = harness error)\n\n')
        fh.write('Checks are chosen by the modules a patch touches (tools/cross_matrix.py).\n\n| change | exit codes |\n|---|---|\n')
        for name, res in rows:
            fh.write('| %s | %s |\n' % (name, ' '.join('%s=%s' % kv for kv in sorted(res.items()))))
    bad = [(n, c) for n, res in rows for c, rc in res.items() if rc not in (0, 1)]
    print('harness errors:', bad)


if __name__ == '__main__':
    main()
