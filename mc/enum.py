"""E1 helpers: deviation-bounded option vectors and deterministic products (no randomness)."""
import itertools


def deviations(menus, max_dev):
    """All option dicts that differ from the defaults in at most max_dev options.

    menus: ordered dict name -> list of NON-default alternatives (the default is "option absent").
    Yields dicts (possibly empty), simplest first (fewest deviations)."""
    names = list(menus)
    for d in range(0, max_dev + 1):
        for combo in itertools.combinations(names, d):
            for values in itertools.product(*[menus[n] for n in combo]):
                yield dict(zip(combo, values))


def product_dicts(**axes):
    names = list(axes)
    for values in itertools.product(*[axes[n] for n in names]):
        yield dict(zip(names, values))


# Menus of step-generator options shared by C05 / C10 (DESIGN 5/C10).  None of the values is the
# default of either generator class, except where noted in the drivers.
GEN_MENUS = dict(
    base_step=[0.25, 1e-3],
    step_ratio=[2, 1.6, 4, 3.5],
    num_steps=[1, 3, 10],
    step_nom=[1, 2.5],
    offset=[1, -2, 0.5],
    num_extrap=[1, 4],
    use_exact_steps=['flip'],
    check_num_steps=[False],
    scale=[1.2, 3],
)


def resolve_gen_options(cls_name, opts):
    """'flip' for use_exact_steps means the opposite of the class default."""
    out = dict(opts)
    if out.get('use_exact_steps') == 'flip':
        out['use_exact_steps'] = cls_name.startswith('Max')
    return out
