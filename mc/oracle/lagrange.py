"""Exact derivative weights of Lagrange basis polynomials (DESIGN 4.5) - oracle of C15 / C16.

For distinct float nodes x_0..x_{m-1} and a float x0 the weight w[k][j] is the k-th derivative at x0
of the basis polynomial  L_j(x) = prod_{i != j} (x - x_i) / (x_j - x_i).  Every float is converted
exactly (a float is a dyadic rational), the nodes are shifted to t_i = x_i - x0, each basis polynomial
is multiplied out factor by factor, and  w[k][j] = k! * [t^k] L_j(t).  No recursion over node subsets
is used (deliberately NOT Fornberg's algorithm), and nothing is imported from numdifftools.

The arithmetic is exact throughout: all shifted nodes are brought to one common power-of-two
denominator D, so that the numerators prod_{i != j} (u - T_i) (u = D t, T_i = D t_i integers) are
multiplied out in Python integers; one Fraction per weight is formed at the end.

    weights(nodes, x0, nmax=None)   -> list of nmax+1 rows, each a list of len(nodes) Fractions
    weights(..., with_scales=True)  -> (W, S), S[k][j] = cancellation-free magnitude of W[k][j]
    weights_row(nodes, x0, k)       -> row k only
    poly_derivative_at(coefs, k, x) -> exact k-th derivative of sum coefs[p] x^p (Fractions)

`python -m mc.oracle.lagrange` (from /verif) runs a self-check against tabulated stencils, against
exactness on monomials, and against a second route (multiply out in x, then Taylor-shift).
"""
from fractions import Fraction
from math import comb, factorial, gcd


def _exact(v):
    """Exact rational value of a float / int / Fraction (rejects non-finite values)."""
    if isinstance(v, Fraction):
        return v
    if isinstance(v, int):
        return Fraction(v)
    return Fraction(float(v))          # raises for nan / inf


def _poly_mul_linear(p, r):
    """p(u) * (u - r) for an integer coefficient list p (lowest degree first)."""
    q = [0] * (len(p) + 1)
    for i, c in enumerate(p):
        q[i + 1] += c
        q[i] -= r * c
    return q


def _shifted_integers(nodes, x0):
    """Exact shifted nodes t_i = x_i - x0 as integers T_i over one common denominator D."""
    xs = [_exact(v) for v in nodes]
    m = len(xs)
    if m == 0:
        raise ValueError('no nodes')
    if len(set(xs)) != m:
        raise ValueError('nodes are not distinct')
    c = _exact(x0)
    ts = [v - c for v in xs]
    D = 1
    for t in ts:
        D = D * t.denominator // gcd(D, t.denominator)
    T = []
    for t in ts:
        q, r = divmod(t.numerator * D, t.denominator)
        assert r == 0
        T.append(q)
    return T, D


def weights(nodes, x0, nmax=None, with_scales=False):
    """Exact weights for derivative orders 0..nmax (default len(nodes)-1) at x0.

    Orders k >= len(nodes) give all-zero rows (the derivative of a polynomial of lower degree).

    with_scales=True returns (W, S) where S[k][j] >= |W[k][j]| is the same weight with every
    cancellation removed:  S[k][j] = k! * [t^k] prod_{i != j} (t + |x_i - x0|) / |x_j - x_i|,
    i.e. k! * e_{m-1-k}(|x_i - x0| : i != j) / prod_{i != j} |x_j - x_i|.  Any algorithm that forms
    the basis polynomials by multiplying the factors (x - x_i)/(x_j - x_i) out one at a time in
    floating point (Fornberg's recursion is one) commits an error of a modest multiple of
    eps * S[k][j] in entry (k, j); S/|W| is the conditioning of that entry."""
    T, D = _shifted_integers(nodes, x0)
    m = len(T)
    if nmax is None:
        nmax = m - 1
    rows = [[Fraction(0)] * m for _ in range(nmax + 1)]
    scal = [[Fraction(0)] * m for _ in range(nmax + 1)] if with_scales else None
    for j in range(m):
        num = [1]
        den = 1
        for i in range(m):
            if i != j:
                num = _poly_mul_linear(num, T[i])
                den *= T[j] - T[i]
        # L_j(t) = num(D t) / den  ->  [t^k] L_j = num[k] D^k / den
        Dk = 1
        for k in range(min(nmax, m - 1) + 1):
            rows[k][j] = Fraction(factorial(k) * num[k] * Dk, den)
            Dk *= D
        if with_scales:
            nabs = [1]
            for i in range(m):
                if i != j:
                    nabs = _poly_mul_linear(nabs, -abs(T[i]))
            Dk = 1
            for k in range(min(nmax, m - 1) + 1):
                scal[k][j] = Fraction(factorial(k) * nabs[k] * Dk, abs(den))
                Dk *= D
    if with_scales:
        return rows, scal
    return rows


def weights_row(nodes, x0, k):
    return weights(nodes, x0, k)[k]


def weights_unshifted(nodes, x0, nmax=None):
    """Second route (self-check only): multiply the basis polynomials out in x with Fractions, then
    Taylor-shift to x0 with binomial coefficients."""
    xs = [_exact(v) for v in nodes]
    m = len(xs)
    if nmax is None:
        nmax = m - 1
    c = _exact(x0)
    rows = [[Fraction(0)] * m for _ in range(nmax + 1)]
    for j in range(m):
        p = [Fraction(1)]
        for i in range(m):
            if i != j:
                s = 1 / (xs[j] - xs[i])
                q = [Fraction(0)] * (len(p) + 1)
                for e, a in enumerate(p):
                    q[e + 1] += a * s
                    q[e] -= a * s * xs[i]
                p = q
        for k in range(min(nmax, m - 1) + 1):
            # k-th derivative at c of sum_e p[e] x^e
            rows[k][j] = sum(p[e] * factorial(k) * comb(e, k) * c ** (e - k) for e in range(k, m))
    return rows


def poly_derivative_at(coefs, k, x):
    """Exact k-th derivative at x of sum_p coefs[p] * X^p."""
    x = _exact(x)
    tot = Fraction(0)
    for p in range(k, len(coefs)):
        tot += _exact(coefs[p]) * (factorial(p) // factorial(p - k)) * x ** (p - k)
    return tot


def monomial_derivative(d, c, k, x):
    """Exact k-th derivative at x of (X - c)^d."""
    if k > d:
        return Fraction(0)
    return (factorial(d) // factorial(d - k)) * (_exact(x) - _exact(c)) ** (d - k)


# --------------------------------------------------------------------------------------------
# self-check

_TABLE = {   # (derivative order, centred integer nodes) -> weights (standard tables)
    (1, 3): ([-1, 0, 1], 2),
    (1, 5): ([1, -8, 0, 8, -1], 12),
    (1, 7): ([-1, 9, -45, 0, 45, -9, 1], 60),
    (2, 3): ([1, -2, 1], 1),
    (2, 5): ([-1, 16, -30, 16, -1], 12),
    (2, 7): ([2, -27, 270, -490, 270, -27, 2], 180),
    (3, 5): ([-1, 2, 0, -2, 1], 2),
    (4, 5): ([1, -4, 6, -4, 1], 1),
    (3, 7): ([1, -8, 13, 0, -13, 8, -1], 8),
    (4, 7): ([-1, 12, -39, 56, -39, 12, -1], 6),
}
_ONE_SIDED = {   # forward stencils at x0 = 0 on nodes 0..len-1
    (1, 3): ([-3, 4, -1], 2),
    (1, 4): ([-11, 18, -9, 2], 6),
    (2, 4): ([2, -5, 4, -1], 1),
    (3, 5): ([-5, 18, -24, 14, -3], 2),
}


def selfcheck():
    n = 0
    for (k, size), (num, den) in _TABLE.items():
        nodes = list(range(-(size // 2), size // 2 + 1))
        assert weights(nodes, 0)[k] == [Fraction(a, den) for a in num], (k, size)
        # scaled, shifted copy: h = 0.25 about 3.0 (all exact floats) -> weights / h^k
        h = 0.25
        got = weights([3.0 + h * v for v in nodes], 3.0)[k]
        assert got == [Fraction(a, den) / Fraction(h) ** k for a in num], (k, size, 'scaled')
        n += 2
    for (k, size), (num, den) in _ONE_SIDED.items():
        assert weights(list(range(size)), 0)[k] == [Fraction(a, den) for a in num], (k, size)
        # mirror image: nodes 0, -1, -2, ... gives (-1)^k times the same weights
        assert weights([-v for v in range(size)], 0)[k] == [(-1) ** k * Fraction(a, den) for a in num]
        n += 2
    # exactness on monomials, irregular float nodes in scrambled order, x0 off the nodes
    nodes = [0.1, -2.75, 3.3, 0.7, 1e-3, -0.4, 12.0]
    x0 = 0.377
    w = weights(nodes, x0)
    for p in range(len(nodes)):
        coefs = [0] * p + [1]
        for k in range(len(nodes)):
            got = sum(w[k][j] * _exact(nodes[j]) ** p for j in range(len(nodes)))
            assert got == poly_derivative_at(coefs, k, x0), (p, k)
            n += 1
    # cardinal property, partition of unity and zero row sums
    w = weights(nodes, nodes[3])
    assert w[0] == [Fraction(int(j == 3)) for j in range(len(nodes))]
    assert all(sum(w[k]) == (1 if k == 0 else 0) for k in range(len(nodes)))
    # second route agrees, also for nmax >= len(nodes) (zero rows)
    for nd, c in ((nodes, x0), ([1.0, 2.5, -0.5], 2.5), ([0.3 + 0.1 * i for i in range(9)], -0.2)):
        assert weights(nd, c) == weights_unshifted(nd, c)
        n += 1
    assert weights([0.0, 1.0], 0.5, 3) == [[Fraction(1, 2)] * 2, [Fraction(-1), Fraction(1)],
                                             [Fraction(0)] * 2, [Fraction(0)] * 2]
    # scales: equal |w| when all nodes lie on one side of x0, never smaller than |w| otherwise
    W, S = weights([1.0, 1.5, 2.25, 4.0], 0.5, with_scales=True)
    assert all(S[k][j] == abs(W[k][j]) for k in range(4) for j in range(4))
    W, S = weights([-1.0, 0.0, 1.0], 0.0, with_scales=True)
    assert S[1] == [Fraction(1, 2), Fraction(2), Fraction(1, 2)] and S[0] == [0, 1, 0]
    assert S[2] == [1, 2, 1]
    W, S = weights(nodes, x0, with_scales=True)
    assert W == weights(nodes, x0) and all(S[k][j] >= abs(W[k][j]) for k in range(7) for j in range(7))
    # permutation equivariance
    perm = [4, 0, 6, 2, 5, 1, 3]
    wp = weights([nodes[i] for i in perm], x0)
    w = weights(nodes, x0)
    assert all(wp[k][a] == w[k][perm[a]] for k in range(len(nodes)) for a in range(len(nodes)))
    assert monomial_derivative(5, 0.5, 2, 2.0) == 20 * Fraction(3, 2) ** 3
    assert monomial_derivative(2, 0.5, 3, 2.0) == 0
    for bad in ([1.0, 1.0], []):
        try:
            weights(bad, 0.0)
        except ValueError:
            n += 1
        else:
            raise AssertionError('accepted %r' % (bad,))
    return n + 6


if __name__ == '__main__':
    print('lagrange self-check ok (%d identities)' % selfcheck())
