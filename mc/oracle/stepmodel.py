"""Closed-form model of the documented step sequences (DESIGN 4.4).  Independent of the library.

All functions take plain python / numpy inputs and return lists of numpy float (or complex) arrays
computed with mpmath for the power, so that the result is correct to < 1 ulp; the library's
floats are compared with these to a few ulp.
"""
import math

import mpmath as mp
import numpy as np

EPS = 2.0 ** -52


def make_exact(h):
    return (h + 1.0) - 1.0


def nominal_step(x):
    x = np.asarray(x) if np.iscomplexobj(x) else np.asarray(x, dtype=float)
    return np.maximum(np.log(1.718281828459045 + np.abs(x)), 1.0)


def default_scale(method, n, order):
    high_order = int(n > 1 or order >= 4)
    order2 = max(order // 2 - 1, 0)
    n_4, n_mod_4 = n // 4, n % 4
    if high_order:
        c = [n_4 * (10 + 1.5 * int(n > 10)),
             3.65 + n_4 * (5 + 1.5 ** n_4),
             3.65 + n_4 * (5 + 1.7 ** n_4),
             7.30 + n_4 * (5 + 2.1 ** n_4)][n_mod_4]
    else:
        c = 0
    base = {'multicomplex': 1.06, 'complex': 1.06 + c}.get(method, 2.5)
    per_n = {'multicomplex': 0.0, 'complex': 0.0}.get(method, 1.3)
    per_o = {'central': 3, 'forward': 2, 'backward': 2}.get(method, 0)
    return base + (n - 1) * per_n + order2 * per_o


def divisor(method, n, order):
    if method in ('central', 'central2', 'multicomplex'):
        return 2
    if method == 'complex':
        return 4 if (n > 1 or order >= 4) else 2
    return 1


def min_num_steps(method, n, order):
    return max(int(n + order - 1) // divisor(method, n, order), 1)


DEFAULTS = {
    'Min': dict(base_step=None, step_ratio=None, num_steps=None, step_nom=None, offset=0,
                num_extrap=0, use_exact_steps=True, check_num_steps=True, scale=None),
    'Max': dict(base_step=2.0, step_ratio=None, num_steps=15, step_nom=None, offset=0,
                num_extrap=9, use_exact_steps=False, check_num_steps=True, scale=500),
    'C': dict(base_step=None, step_ratio=4.0, num_steps=None, step_nom=None, offset=0,
              num_extrap=0, use_exact_steps=True, check_num_steps=True, scale=1.2,
              path='radial', dtheta=math.pi / 8),
}


import functools


@functools.lru_cache(maxsize=100000)
def _pow(ratio, e):
    """ratio**e with < 1 ulp error; ratio float or complex, e int or float."""
    if isinstance(ratio, complex):
        v = mp.power(mp.mpc(ratio.real, ratio.imag), mp.mpf(e))
        return complex(v)
    v = mp.power(mp.mpf(ratio), mp.mpf(e))
    return float(v)


def steps(cls, x, method='forward', n=1, order=2, **opts):
    """List of step arrays (shape of x) as documented for generator class cls in {Min, Max, C}."""
    o = dict(DEFAULTS[cls])
    unknown = set(opts) - set(o)
    assert not unknown, unknown
    o.update(opts)
    x = np.asarray(x) if np.iscomplexobj(x) else np.asarray(x, dtype=float)
    scale = o['scale'] if o['scale'] is not None else default_scale(method, n, order)
    base = o['base_step']
    if base is None:
        base = EPS ** (1.0 / scale)
    if o['step_nom'] is None:
        nom = nominal_step(x)
    else:
        nom = np.full(x.shape, o['step_nom'], dtype=float)
    ratio = o['step_ratio']
    if ratio is None:
        ratio = 2.0 if n == 1 else 1.6
    ratio = float(ratio)
    if cls == 'C':
        path = o['path']
        dtheta = 0 if path[0].lower() == 'r' else o['dtheta']
        if dtheta != 0:
            ratio = complex(np.exp(1j * dtheta) * ratio)
    mns = min_num_steps(method, n, order)
    if o['num_steps'] is not None:
        num = int(o['num_steps'])
        # CStepGenerator documents num_steps as "the number of steps generated" (no minimum)
        if o['check_num_steps'] and cls != 'C':
            num = max(num, mns)
    elif cls == 'C':
        num = 2 * int(np.round(16.0 / np.log(np.abs(ratio)))) + 1
    else:
        num = mns + int(o['num_extrap'])
    b = (np.asarray(base) if np.iscomplexobj(base) else np.asarray(base, dtype=float)) * nom
    if o['use_exact_steps']:
        b = make_exact(b)
        ratio = make_exact(ratio)
    offset = o['offset']
    if cls == 'Max':
        exps = [-i + offset for i in range(num)]
    else:
        exps = [i + offset for i in range(num - 1, -1, -1)]
    out, kept = [], []
    for e in exps:
        s = b * _pow(ratio, e)
        if np.all(np.abs(s) > 0):
            out.append(s)
            kept.append(e)
    return out, ratio, kept


def derivative_generator(method, step=None, **options):
    """Which generator class/options Derivative-like objects build from (step, **options)."""
    if step is None and method not in ('complex', 'multicomplex'):
        return 'Max', dict(options)
    opts = dict(options)
    if 'step_nom' not in opts and step is not None:
        opts['step_nom'] = 1.0
    if step is not None:
        opts['base_step'] = step
    return 'Min', opts


def richardson_step(method, n, order):
    if method in ('central', 'central2', 'multicomplex'):
        return 2
    if method == 'complex':
        return 4 if (n > 1 or order >= 4) else 2
    return 1


def method_order(method, n, order):
    s = richardson_step(method, n, order)
    return max((order // s) * s, s)


def rule_length(method, n, order):
    """Number of steps the finite-difference rule consumes (documented: (n-1+method_order)//step)."""
    if method == 'multicomplex' or n == 0:
        return 1
    s = richardson_step(method, n, order)
    return max((n - 1 + method_order(method, n, order)) // s, 1)
