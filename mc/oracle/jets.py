"""Truncated Taylor arithmetic in multiprecision (DESIGN 4.1) and expression programs.

A jet is a python list of K mpmath numbers: the Taylor COEFFICIENTS a_0..a_{K-1} of a function of
t at t = 0 (the n-th derivative is n! a_n).  Everything here is independent of numdifftools.

Programs are nested tuples
    ('x',)                     the variable
    ('c', value)               a constant
    ('u', name, e)             unary elementary function
    ('b', op, e1, e2)          op in + - * /
    ('p', e, r)                power with a constant exponent (int or float)
    ('s', c, e)                scaling c*e  (sugar for ('b','*',('c',c),e))
"""
import math

import mpmath as mp

mp.mp.dps = 60


class DomainError(Exception):
    pass


def const(v, K):
    return [mp.mpmathify(v)] + [mp.mpf(0)] * (K - 1)


def var(x0, K, scale=1):
    j = [mp.mpmathify(x0)] + [mp.mpf(0)] * (K - 1)
    if K > 1:
        j[1] = mp.mpmathify(scale)
    return j


def add(a, b):
    return [x + y for x, y in zip(a, b)]


def sub(a, b):
    return [x - y for x, y in zip(a, b)]


def neg(a):
    return [-x for x in a]


def scal(c, a):
    c = mp.mpmathify(c)
    return [c * x for x in a]


def mul(a, b):
    K = len(a)
    out = []
    for k in range(K):
        s = mp.mpf(0)
        for j in range(k + 1):
            if a[j] != 0 and b[k - j] != 0:
                s += a[j] * b[k - j]
        out.append(s)
    return out


def _nonzero(c, what):
    if c == 0:
        raise DomainError(what)


def div(a, b):
    K = len(a)
    _nonzero(b[0], 'division by zero')
    out = []
    for k in range(K):
        s = a[k]
        for j in range(1, k + 1):
            if b[j] != 0:
                s -= b[j] * out[k - j]
        out.append(s / b[0])
    return out


def _is_real(z):
    return isinstance(z, mp.mpf) or (isinstance(z, mp.mpc) and z.imag == 0 and False)


def _real_positive_required(c, what):
    if isinstance(c, mp.mpf):
        if not c > 0:
            raise DomainError(what)
    else:
        if c == 0 or (c.imag == 0 and c.real < 0):
            raise DomainError(what)


def _no_overflow(c):
    """binary64 overflows beyond exp(709): such points are outside the domain of the float program (and a
    multiprecision exp of an astronomically large argument would never return)"""
    if abs(mp.re(c)) > 700:
        raise DomainError('overflow')


def exp(u, first=None):
    K = len(u)
    _no_overflow(u[0])
    e = [mp.exp(u[0])]
    for k in range(1, K):
        s = mp.mpf(0)
        for j in range(1, k + 1):
            if u[j] != 0:
                s += j * u[j] * e[k - j]
        e.append(s / k)
    if first is not None:
        e = [first] + e[1:]
    return e


def expm1(u):
    e = exp(u)
    e[0] = mp.expm1(u[0])
    return e


def _int_y_prime_eq_uprime_over_w(u, w, y0):
    """y with y' = u'/w."""
    K = len(u)
    _nonzero(w[0], 'singular')
    y = [y0]
    for k in range(1, K):
        s = k * u[k]
        for j in range(1, k):
            if w[k - j] != 0:
                s -= j * y[j] * w[k - j]
        y.append(s / (k * w[0]))
    return y


def log(u):
    _real_positive_required(u[0], 'log of non-positive')
    return _int_y_prime_eq_uprime_over_w(u, u, mp.log(u[0]))


def log1p(u):
    w = list(u)
    w[0] = 1 + u[0]
    _real_positive_required(w[0], 'log1p of <= -1')
    return _int_y_prime_eq_uprime_over_w(u, w, mp.log1p(u[0]) if isinstance(u[0], mp.mpf)
                                         else mp.log(w[0]))


def powr(u, r):
    """u**r for a constant exponent; integer r >= 0 by multiplication (u_0 = 0 allowed)."""
    K = len(u)
    if isinstance(r, int) or (isinstance(r, float) and r == int(r)):
        r = int(r)
        if r >= 0:
            out = const(1, K)
            base = list(u)
            e = r
            while e:
                if e & 1:
                    out = mul(out, base)
                e >>= 1
                if e:
                    base = mul(base, base)
            return out
        return div(const(1, K), powr(u, -r))
    _real_positive_required(u[0], 'real power of non-positive')
    r = mp.mpmathify(r)
    p = [mp.power(u[0], r)]
    for k in range(1, K):
        s = mp.mpf(0)
        for j in range(1, k + 1):
            if u[j] != 0:
                s += (r * j - (k - j)) * u[j] * p[k - j]
        p.append(s / (k * u[0]))
    return p


def sqrt(u):
    return powr(u, 0.5)


def sincos(u):
    K = len(u)
    if abs(u[0]) > 1e15:
        raise DomainError('argument too large for a meaningful float sine')
    s = [mp.sin(u[0])]
    c = [mp.cos(u[0])]
    for k in range(1, K):
        a = mp.mpf(0)
        b = mp.mpf(0)
        for j in range(1, k + 1):
            if u[j] != 0:
                a += j * u[j] * c[k - j]
                b += j * u[j] * s[k - j]
        s.append(a / k)
        c.append(-b / k)
    return s, c


def sinhcosh(u):
    K = len(u)
    _no_overflow(u[0])
    s = [mp.sinh(u[0])]
    c = [mp.cosh(u[0])]
    for k in range(1, K):
        a = mp.mpf(0)
        b = mp.mpf(0)
        for j in range(1, k + 1):
            if u[j] != 0:
                a += j * u[j] * c[k - j]
                b += j * u[j] * s[k - j]
        s.append(a / k)
        c.append(b / k)
    return s, c


def sin(u):
    return sincos(u)[0]


def cos(u):
    return sincos(u)[1]


def tan(u):
    s, c = sincos(u)
    return div(s, c)


def sinh(u):
    return sinhcosh(u)[0]


def cosh(u):
    return sinhcosh(u)[1]


def tanh(u):
    s, c = sinhcosh(u)
    return div(s, c)


def _one_plus_sq(u, sign):
    K = len(u)
    w = mul(u, u)
    w = scal(sign, w)
    w[0] = 1 + w[0]
    return w


def arctan(u):
    return _int_y_prime_eq_uprime_over_w(u, _one_plus_sq(u, 1), mp.atan(u[0]))


def arctanh(u):
    if isinstance(u[0], mp.mpf) and not abs(u[0]) < 1:
        raise DomainError('arctanh outside (-1,1)')
    return _int_y_prime_eq_uprime_over_w(u, _one_plus_sq(u, -1), mp.atanh(u[0]))


def arcsin(u):
    if isinstance(u[0], mp.mpf) and not abs(u[0]) < 1:
        raise DomainError('arcsin outside (-1,1)')
    return _int_y_prime_eq_uprime_over_w(u, sqrt(_one_plus_sq(u, -1)), mp.asin(u[0]))


def arccos(u):
    a = arcsin(u)
    out = neg(a)
    out[0] = mp.pi / 2 + out[0]
    return out


def arcsinh(u):
    return _int_y_prime_eq_uprime_over_w(u, sqrt(_one_plus_sq(u, 1)), mp.asinh(u[0]))


def arccosh(u):
    if isinstance(u[0], mp.mpf) and not u[0] > 1:
        raise DomainError('arccosh outside (1,inf)')
    w = mul(u, u)
    w[0] = w[0] - 1
    return _int_y_prime_eq_uprime_over_w(u, sqrt(w), mp.acosh(u[0]))


UNARY = dict(exp=exp, log=log, sqrt=sqrt, sin=sin, cos=cos, tan=tan, sinh=sinh, cosh=cosh,
             tanh=tanh, arctan=arctan, arcsin=arcsin, arccos=arccos, arcsinh=arcsinh,
             arccosh=arccosh, arctanh=arctanh, expm1=expm1, log1p=log1p)


def _recip(f):
    def g(u):
        return div(const(1, len(u)), f(u))
    return g


UNARY.update(cot=lambda u: div(cos(u), sin(u)), sec=_recip(cos), csc=_recip(sin),
             coth=lambda u: div(cosh(u), sinh(u)), sech=_recip(cosh), csch=_recip(sinh),
             exp2=lambda u: exp(scal(mp.log(2), u)),
             log2=lambda u: scal(1 / mp.log(2), log(u)),
             log10=lambda u: scal(1 / mp.log(10), log(u)))


LN2 = mp.log(2)


def logaddexp(a, b):
    return log(add(exp(a), exp(b)))


def logaddexp2(a, b):
    return scal(1 / LN2, log(add(exp(scal(LN2, a)), exp(scal(LN2, b)))))


def eval_jet(prog, x0, K, nodes=None, direction=1):
    """Jet of the program at x0 (t -> prog(x0 + direction*t)).  If nodes is a list, every
    (node_program, child_jets, jet) triple is appended (used by the analyticity-radius oracle)."""
    tag = prog[0]
    if tag == 'x':
        j = var(x0, K, direction)
        kids = []
    elif tag == 'c':
        j = const(prog[1], K)
        kids = []
    elif tag == 's':
        k = eval_jet(prog[2], x0, K, nodes, direction)
        j = scal(prog[1], k)
        kids = [k]
    elif tag == 'u':
        k = eval_jet(prog[2], x0, K, nodes, direction)
        j = UNARY[prog[1]](k)
        kids = [k]
    elif tag == 'p':
        k = eval_jet(prog[1], x0, K, nodes, direction)
        j = powr(k, prog[2])
        kids = [k]
    elif tag == 'pw':
        a = eval_jet(prog[1], x0, K, nodes, direction)
        b = eval_jet(prog[2], x0, K, nodes, direction)
        j = powj(a, b)
        kids = [a, b]
    elif tag == 'b':
        a = eval_jet(prog[2], x0, K, nodes, direction)
        b = eval_jet(prog[3], x0, K, nodes, direction)
        op = prog[1]
        j = {'+': add, '-': sub, '*': mul, '/': div, 'L': logaddexp, 'L2': logaddexp2}[op](a, b)
        kids = [a, b]
    else:
        raise ValueError(prog)
    if nodes is not None:
        nodes.append((prog, kids, j))
    return j


def derivative(jet, n):
    return mp.factorial(n) * jet[n]


# ---------------------------------------------------------------------------------------------
# the same programs on numpy / Bicomplex arguments (this is the user function handed to the library)

def np_eval(prog, x):
    import numpy as np
    tag = prog[0]
    if tag == 'x':
        return x
    if tag == 'c':
        return prog[1]
    if tag == 's':
        return prog[1] * np_eval(prog[2], x)
    if tag == 'u':
        arg = np_eval(prog[2], x)
        if hasattr(np, prog[1]):
            return getattr(np, prog[1])(arg)
        return getattr(arg, prog[1])()      # cot, sec, ... exist only as Bicomplex methods
    if tag == 'p':
        return np_eval(prog[1], x) ** exponent_form(prog[2], x)
    if tag == 'pw':
        return np_eval(prog[1], x) ** np_eval(prog[2], x)
    if tag == 'b':
        a = np_eval(prog[2], x)
        b = np_eval(prog[3], x)
        op = prog[1]
        if op == '+':
            return a + b
        if op == '-':
            return a - b
        if op == '*':
            return a * b
        if op == 'L':       # (numpy has no object loop for these two: the class methods are called directly)
            return a.logaddexp(b) if hasattr(a, 'logaddexp') else np.logaddexp(a, b)
        if op == 'L2':
            return a.logaddexp2(b) if hasattr(a, 'logaddexp2') else np.logaddexp2(a, b)
        return a / b
    raise ValueError(prog)


def make_fun(prog):
    def f(x):
        return np_eval(prog, x)
    f.prog = prog
    return f


EXP_FORM = [None]     # how a constant exponent is handed to `**` by np_eval (None: the Python number itself)


def exponent_form(r, x):
    import numpy as np
    f = EXP_FORM[0]
    if f is None:
        return r
    if f == 'array0d':
        return np.array(float(r))
    if f == 'complex':
        return complex(r, 0.0)
    if f == 'float64':
        return np.float64(r)
    if f == 'fraction':
        from fractions import Fraction
        return Fraction(r)
    if f == 'bicomplex':
        return type(x)(float(r), 0.0)
    raise KeyError(f)


def show(prog):
    tag = prog[0]
    if tag == 'x':
        return 'x'
    if tag == 'c':
        return repr(prog[1])
    if tag == 's':
        return '%r*%s' % (prog[1], show(prog[2]))
    if tag == 'u':
        return '%s(%s)' % (prog[1], show(prog[2]))
    if tag == 'p':
        return '(%s)**%r' % (show(prog[1]), prog[2])
    if tag == 'pw':
        return '(%s)**(%s)' % (show(prog[1]), show(prog[2]))
    return '(%s %s %s)' % (show(prog[2]), prog[1], show(prog[3]))


def contains(prog, pred):
    if pred(prog):
        return True
    return any(contains(k, pred) for k in prog[1:] if isinstance(k, tuple))


def depth(prog):
    kids = [k for k in prog[1:] if isinstance(k, tuple)]
    return 1 + max([depth(k) for k in kids], default=0) if prog[0] not in ('x', 'c') else 0


# ---------------------------------------------------------------------------------------------
# general power u**v (both jets) and evaluation of programs on mpmath complex numbers

def powj(u, v):
    return exp(mul(v, log(u)))


MPF = dict(exp=mp.exp, log=mp.log, sqrt=mp.sqrt, sin=mp.sin, cos=mp.cos, tan=mp.tan, sinh=mp.sinh,
           cosh=mp.cosh, tanh=mp.tanh, arctan=mp.atan, arcsin=mp.asin, arccos=mp.acos, arcsinh=mp.asinh,
           arccosh=mp.acosh, arctanh=mp.atanh, expm1=lambda z: mp.exp(z) - 1, log1p=lambda z: mp.log(1 + z),
           cot=mp.cot, sec=mp.sec, csc=mp.csc, coth=mp.coth, sech=mp.sech, csch=mp.csch,
           exp2=lambda z: mp.power(2, z), log2=lambda z: mp.log(z) / mp.log(2),
           log10=lambda z: mp.log(z) / mp.log(10))


def mp_eval(prog, z):
    """Evaluate the program at an mpmath (complex) number with the working precision."""
    tag = prog[0]
    if tag == 'x':
        return z
    if tag == 'c':
        return mp.mpmathify(prog[1])
    if tag == 's':
        return mp.mpmathify(prog[1]) * mp_eval(prog[2], z)
    if tag == 'u':
        return MPF[prog[1]](mp_eval(prog[2], z))
    if tag == 'p':
        return mp.power(mp_eval(prog[1], z), mp.mpmathify(prog[2]))
    if tag == 'pw':
        return mp.power(mp_eval(prog[1], z), mp_eval(prog[2], z))
    if tag == 'b':
        a, b = mp_eval(prog[2], z), mp_eval(prog[3], z)
        op = prog[1]
        if op == 'L':
            return mp.log(mp.exp(a) + mp.exp(b))
        if op == 'L2':
            return mp.log(mp.power(2, a) + mp.power(2, b)) / mp.log(2)
        return a + b if op == '+' else a - b if op == '-' else a * b if op == '*' else a / b
    raise ValueError(prog)
