"""Wynn's epsilon table in exact rational arithmetic, with a first-order running-error bound of the
floating-point recurrence propagated next to it (DESIGN 5/C14).  Independent of the library."""
from fractions import Fraction

EPS = Fraction(1, 2 ** 52)


class Undefined(Exception):
    """a table difference vanishes exactly: the entry is not defined"""


class Table(object):
    """Incremental epsilon table.  col[k][j] = eps_k^{(j)}; k = -1 column is implicit zero.
    err[k][j] = first-order bound of the rounding error of a floating-point evaluation of the same
    recurrence (input error err0 * |S_j| per term, err0 = 0 -> data taken as exact)."""

    def __init__(self, err0=0):
        self.S = []
        self.col = [[]]      # col[0] = the sequence
        self.err = [[]]
        self.err0 = Fraction(err0)
        self.dead = False    # a vanished difference makes all later dependent entries undefined
        self.min_rel_delta = None
        self._stack = []

    def pop(self):
        self.dead, self.min_rel_delta = self._stack.pop()
        j = len(self.S) - 1
        self.S.pop()
        for k in range(0, j + 1):
            self.col[k].pop()
            self.err[k].pop()

    def push(self, s):
        self._stack.append((self.dead, self.min_rel_delta))
        s = Fraction(s)
        self.S.append(s)
        j = len(self.S) - 1
        self.col[0].append(s)
        self.err[0].append(abs(s) * self.err0)
        # new anti-diagonal: eps_k^{(j-k)}, k = 1..j
        for k in range(1, j + 1):
            n = j - k
            if len(self.col) <= k:
                self.col.append([])
                self.err.append([])
            a, b = self.col[k - 1][n + 1], self.col[k - 1][n]
            if a is None or b is None:
                self.col[k].append(None)
                self.err[k].append(None)
                continue
            delta = a - b
            if delta == 0:
                self.col[k].append(None)
                self.err[k].append(None)
                self.dead = True
                continue
            prev = self.col[k - 2][n + 1] if k >= 2 else Fraction(0)
            perr = self.err[k - 2][n + 1] if k >= 2 else Fraction(0)
            if prev is None:
                self.col[k].append(None)
                self.err[k].append(None)
                continue
            val = prev + 1 / delta
            ea, eb = self.err[k - 1][n + 1], self.err[k - 1][n]
            e = perr + (ea + eb + EPS * abs(delta)) / (delta * delta) + EPS * (abs(1 / delta) + abs(val))
            self.col[k].append(val)
            self.err[k].append(e)
            if k % 2 == 1:
                scale = max(abs(a), abs(b))
                if scale > 0:
                    r = abs(delta) / scale
                    if self.min_rel_delta is None or r < self.min_rel_delta:
                        self.min_rel_delta = r

    def entry(self, k, n):
        try:
            return self.col[k][n], self.err[k][n]
        except IndexError:
            return None, None

    def highest_even(self):
        """(value, error bound) of eps_{2 floor(m/2)}^{(m - 2 floor(m/2))}, m = index of the last term."""
        m = len(self.S) - 1
        k = 2 * (m // 2)
        return self.entry(k, m - k)

    def even_antidiagonal(self):
        """all (value, bound) of even columns on the newest anti-diagonal"""
        m = len(self.S) - 1
        out = []
        for k in range(0, m + 1, 2):
            v, e = self.entry(k, m - k)
            if v is not None:
                out.append((k, v, e))
        return out
