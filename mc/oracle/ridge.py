"""Deterministic multivariate test maps with closed-form derivatives (DESIGN 4.5, used by C03).

Two families of maps R^n -> R^m (or R^(m x k)), every entry f[i, l] of which is

  affine   A[i,l,:] . x + b[i,l]          integer-plus-half coefficients, all different, A != A^T
  ridge    g(a . x) * h(b . x)            g, h from FUNS, coefficient vectors a, b without zeros

so that the restriction of an entry to any line  t -> f[i,l](x + t u)  is the ONE-variable
function  g(c + alpha t) * h(d + beta t)  with c = a.x, alpha = a.u, d = b.x, beta = b.u.  That
restriction is handed to the one-dimensional oracles (mc.oracle.jets / mc.oracle.scale) as an
expression program, which gives the exact derivative, the analyticity radius, the evaluation noise
and the local scale S_1 exactly as for C01.  The exact partial derivative is ALSO computed from the
closed form  alpha g'(c) h(d) + beta g(c) h'(d)  with plain mpmath functions; the two must agree
(`Restriction` raises if they do not), so an error of this module cannot pass silently.

Everything is a pure function of the map description `spec`, which is plain data:

    spec = (family, out, m, n, k, variant)
      family   'affine' | 'ridge'
      out      'scalar'  f returns a 0-d value               (m = k = 1)
               'vector'  f returns np.array of shape (m,)    (k = 1)
               'matrix'  f returns np.array of shape (m, k)
      variant  which (g, h) pairs / coefficient pattern (ridge), ignored for affine

The user functions (`make_fun`) use indexing and elementwise arithmetic only, so they accept float,
complex and numdifftools' `Bicomplex` vectors, and x of shape (n,) or (n, 1).

This module knows nothing about numdifftools.  Hessian test maps live in ridge_hess.py.
"""
import math

import mpmath as mp

from mc.oracle import jets, scale as sc

EPS = 2.0 ** -52
FUNS = ('exp', 'sin', 'cosh', 'arctan', 'square', 'rat')      # rat(t) = 1 / (2 + t^2)
X = ('x',)
POINT_KINDS = ('ramp', 'big', 'tiny', 'mixed')


# ---------------------------------------------------------------------------------------------
# points

def point(kind, n):
    """The four point families of C03 as lists of python floats."""
    if kind == 'ramp':
        return [0.3 + 0.1 * i for i in range(n)]
    if kind == 'big':
        return [25.0] * n
    if kind == 'tiny':
        return [1e-3] * n
    if kind == 'mixed':
        return [(-1.0) ** i * (0.7 + 0.45 * i) for i in range(n)]
    raise ValueError(kind)


# ---------------------------------------------------------------------------------------------
# the one-variable building blocks, three times: numpy (user function), mpmath closed form, jets

def np_apply(name, u):
    import numpy as np
    if name == 'square':
        return u * u
    if name == 'rat':
        return 1.0 / (2.0 + u * u)
    return getattr(np, name)(u)


def mp_pair(name, u):
    """(g(u), g'(u)) in mpmath."""
    if name == 'exp':
        e = mp.exp(u)
        return e, e
    if name == 'sin':
        return mp.sin(u), mp.cos(u)
    if name == 'cosh':
        return mp.cosh(u), mp.sinh(u)
    if name == 'arctan':
        return mp.atan(u), 1 / (1 + u * u)
    if name == 'square':
        return u * u, 2 * u
    if name == 'rat':
        q = 2 + u * u
        return 1 / q, -2 * u / (q * q)
    raise ValueError(name)


def prog_apply(name, arg):
    """Expression program (mc.oracle.jets) of g(arg)."""
    if name == 'square':
        return ('p', arg, 2)
    if name == 'rat':
        return ('b', '/', ('c', 1), ('b', '+', ('c', 2), ('p', arg, 2)))
    return ('u', name, arg)


# ---------------------------------------------------------------------------------------------
# coefficients

def _check(spec):
    family, out, m, n, k, variant = spec
    if family not in ('affine', 'ridge') or out not in ('scalar', 'vector', 'matrix'):
        raise ValueError(spec)
    if out == 'scalar' and (m != 1 or k != 1):
        raise ValueError(spec)
    if out == 'vector' and k != 1:
        raise ValueError(spec)
    return family, out, int(m), int(n), int(k), int(variant)


def affine_entry(i, l, m, n):
    """Row A[i, l, :] and offset b[i, l].  Coefficients are +-(running index) + 0.5: all different
    over (i, j, l), never zero, exactly representable, and A[i][j] != A[j][i] for i != j."""
    row = []
    for j in range(n):
        idx = 1 + i + m * j + m * n * l
        sign = -1.0 if (i + j + l) % 2 else 1.0
        row.append(sign * idx + 0.5)
    off = (-1.0 if (i + l) % 2 else 1.0) * (0.75 + i + 2 * l)
    return ('affine', row, off)


def ridge_pair(i, l, variant):
    p = (7 * variant + 5 * i + 11 * l) % 36
    return FUNS[p // 6], FUNS[p % 6]


def ridge_entry(i, l, m, n, variant):
    """(g, h, a, b) of entry (i, l).  |a_j|, |b_j| in [1/8, 1]; signs mixed; the tag makes the
    vectors of different entries different, so all entries of a matrix-valued map are distinct."""
    g, h = ridge_pair(i, l, variant)
    tag = (1 + i + m * l) / 64.0
    a, b = [], []
    for j in range(n):
        sa = -1.0 if (i + 2 * j + l + variant) % 3 == 0 else 1.0
        sb = -1.0 if (i + j + l) % 2 else 1.0
        a.append(sa * ((1 + (3 * i + 2 * j + 7 * l + variant) % 5) / 8.0 + tag))
        b.append(sb * (1 + (2 * i + 3 * j + 5 * l + 2 * variant + 1) % 5) / 8.0)
    return ('ridge', g, h, a, b)


def entries(spec):
    """dict (i, l) -> entry description."""
    family, out, m, n, k, variant = _check(spec)
    out_d = {}
    for i in range(m):
        for l in range(k):
            out_d[(i, l)] = affine_entry(i, l, m, n) if family == 'affine' else \
                ridge_entry(i, l, m, n, variant)
    # distinctness is a promise of this module
    seen = set()
    for e in out_d.values():
        key = repr(e)
        if key in seen:
            raise ValueError('two entries of %r coincide' % (spec,))
        seen.add(key)
    return out_d


def describe(spec):
    family, out, m, n, k, variant = _check(spec)
    ent = entries(spec)
    if family == 'affine':
        body = 'A x + b, A[i][j] = +-(1+i+m*j+m*n*l)+0.5'
    else:
        body = ', '.join('f[%d,%d]=%s(a.x)*%s(b.x)' % (i, l, e[1], e[2]) for (i, l), e in sorted(ent.items())[:4])
        if len(ent) > 4:
            body += ', ...'
    return '%s %s R^%d -> %s: %s' % (family, out, n, {'scalar': 'R', 'vector': 'R^%d' % m,
                                                     'matrix': 'R^(%dx%d)' % (m, k)}[out], body)


# ---------------------------------------------------------------------------------------------
# user function

def entry_np(e, x, n):
    if e[0] == 'affine':
        return sum(e[1][j] * x[j] for j in range(n)) + e[2]
    _, g, h, a, b = e
    return np_apply(g, sum(a[j] * x[j] for j in range(n))) * np_apply(h, sum(b[j] * x[j] for j in range(n)))


def make_fun(spec):
    """The python function handed to the library (indexing + elementwise arithmetic only)."""
    import numpy as np
    family, out, m, n, k, variant = _check(spec)
    ent = entries(spec)

    if out == 'scalar':
        e00 = ent[(0, 0)]

        def f(x):
            return entry_np(e00, x, n)
    elif out == 'vector':
        rows = [ent[(i, 0)] for i in range(m)]

        def f(x):
            return np.array([entry_np(e, x, n) for e in rows])
    else:
        grid = [[ent[(i, l)] for l in range(k)] for i in range(m)]

        def f(x):
            return np.array([[entry_np(e, x, n) for e in row] for row in grid])
    f.spec = spec
    return f


# ---------------------------------------------------------------------------------------------
# oracle: restriction of one entry to a line through x

def _dot(c, x):
    return mp.fsum(mp.mpf(ci) * mp.mpf(xi) for ci, xi in zip(c, x))


def _absdot(c, x):
    return float(mp.fsum(abs(mp.mpf(ci) * mp.mpf(xi)) for ci, xi in zip(c, x)))


def unit(v):
    """v / |v| in mpmath (exact inputs)."""
    vv = [mp.mpf(t) for t in v]
    nrm = mp.sqrt(mp.fsum(t * t for t in vv))
    return [t / nrm for t in vv]


def basis(n, j):
    return [mp.mpf(1) if i == j else mp.mpf(0) for i in range(n)]


class Restriction(object):
    """t -> entry(x + t u) analysed at t = 0.

    exact     d/dt at 0 (mpmath, closed form, cross-checked against the jet)
    value     entry(x)
    R_an      analyticity radius of the restriction (majorant ladder of mc.oracle.scale)
    noise     evaluation-noise magnitude: |value| + sum_children |d value/d child| noise(child), where the
              inner products a.x are charged sum_j |a_j x_j| (what a floating-point dot product and the
              rounding of x_j + h can perturb), not |a.x|; plus the second-order terms eps N^2 that take
              over where a factor and its slope vanish together (t^2 at 0, or g = h = 0)
    S, rho    S_1 = max(noise, max_k |a_k| rho^k) / rho with rho = min(step_nom, R_an/2)
    resolved  the Taylor majorant has decayed (otherwise no accuracy claim is made)
    """
    __slots__ = ('exact', 'value', 'R_an', 'noise', 'S', 'rho', 'resolved', 'prog')


def restriction(e, x, u, step_nom):
    """e: entry description, x: list of floats, u: list of mpmath numbers (direction, any length
    normalisation), step_nom: nominal step of the variable that is moved (oracle side)."""
    r = Restriction()
    if e[0] == 'affine':
        _, row, off = e
        c = _dot(row, x) + mp.mpf(off)
        alpha = mp.fsum(mp.mpf(ai) * ui for ai, ui in zip(row, u))
        prog = ('b', '+', ('c', c), ('s', alpha, X))
        exact = alpha
        value = c
        noise_abs = _absdot(row, x) + abs(off)
        extra = None
    else:
        _, g, h, a, b = e
        c, d = _dot(a, x), _dot(b, x)
        alpha = mp.fsum(mp.mpf(ai) * ui for ai, ui in zip(a, u))
        beta = mp.fsum(mp.mpf(bi) * ui for bi, ui in zip(b, u))
        g0, g1 = mp_pair(g, c)
        h0, h1 = mp_pair(h, d)
        exact = alpha * g1 * h0 + beta * g0 * h1
        value = g0 * h0
        prog = ('b', '*', prog_apply(g, ('b', '+', ('c', c), ('s', alpha, X))),
                prog_apply(h, ('b', '+', ('c', d), ('s', beta, X))))
        na, nb = _absdot(a, x), _absdot(b, x)
        ag0, ag1, ah0, ah1 = (float(abs(t)) for t in (g0, g1, h0, h1))
        extra = ag1 * ah0 * max(na - float(abs(c)), 0.0) + ag0 * ah1 * max(nb - float(abs(d)), 0.0)
        # second-order terms: where value and slope of a factor vanish together (square at 0, or both
        # factors zero) the first-order running-error bound is 0 although the float evaluation is not
        ng = ag0 + ag1 * na + (EPS * na * na if g == 'square' else 0.0)
        nh = ah0 + ah1 * nb + (EPS * nb * nb if h == 'square' else 0.0)
        extra += EPS * ((ah0 * na * na if g == 'square' else 0.0) + (ag0 * nb * nb if h == 'square' else 0.0)
                        + ng * nh)
        noise_abs = None
    an = sc.analyse(prog, 0.0, ladder_top=32.0 * step_nom)
    # the two independent derivations of the derivative must agree
    a1 = an.jet[1]
    tol = mp.mpf(10) ** -45 * (abs(exact) + abs(a1) + abs(value)) + mp.mpf(10) ** -300
    if abs(a1 - exact) > tol or abs(an.jet[0] - value) > tol:
        raise AssertionError('ridge oracle disagrees with jets: %r vs %r for %r' % (exact, a1, e))
    if extra is None:
        an.noise = max(an.noise, noise_abs)
    else:
        an.noise = an.noise + extra
    rho = min(step_nom, an.R_an / 2.0)
    S, rho, resolved = an.scale(1, rho=rho)
    r.exact, r.value, r.R_an, r.noise = exact, value, an.R_an, an.noise
    r.S, r.rho, r.resolved, r.prog = S, rho, bool(resolved and an.ok), prog
    return r


def partial(e, x, j):
    """Restriction of entry e along the j-th coordinate axis."""
    return restriction(e, x, basis(len(x), j), sc.step_nom(x[j]))


def affine_allowance_unit(e, x, j):
    """|A||x| + |b| + |A_ij| for entry e = row i (the unit of the 'exact to rounding' rule)."""
    _, row, off = e
    return _absdot(row, x) + abs(off) + abs(row[j])


if __name__ == '__main__':
    # self-test: closed forms against mpmath's own numerical differentiation
    worst = 0
    for spec in [('ridge', 'matrix', 3, 4, 2, s) for s in range(12)] + [('affine', 'matrix', 3, 3, 2, 0)]:
        ent = entries(spec)
        for kind in POINT_KINDS:
            x = point(kind, spec[3])
            for (i, l), e in ent.items():
                for j in range(spec[3]):
                    r = partial(e, x, j)

                    def line(t, e=e, j=j):
                        xs = [mp.mpf(v) for v in x]
                        xs[j] = xs[j] + t
                        if e[0] == 'affine':
                            return _dot(e[1], xs) + e[2]
                        return mp_pair(e[1], _dot(e[3], xs))[0] * mp_pair(e[2], _dot(e[4], xs))[0]
                    num = mp.diff(line, 0)
                    rel = abs(num - r.exact) / (abs(r.exact) + mp.mpf(10) ** -30)
                    worst = max(worst, rel)
    print('worst relative difference closed form vs mp.diff: %s' % mp.nstr(worst, 3))
