"""Exact numbers (DESIGN 4.3): the field Q(sqrt2, i) with exact conversion of floats.

QA(a, b, c, d) = a + b*sqrt2 + (c + d*sqrt2) i, all coefficients Fractions.  Python / numpy floats
and complex floats are converted EXACTLY (binary64 -> Fraction).  The library's own difference
functions run unmodified on these objects (they use + - * /, .real, .imag and float constants).
"""
from fractions import Fraction
import numbers

import numpy as np


def F(x):
    if isinstance(x, Fraction):
        return x
    if isinstance(x, (int, np.integer)):
        return Fraction(int(x))
    if isinstance(x, (float, np.floating)):
        return Fraction(float(x))
    raise TypeError(type(x))


class QA(object):
    __slots__ = ('a', 'b', 'c', 'd')
    __array_ufunc__ = None     # numpy scalars/arrays defer to our reflected operators
    __array_priority__ = 1000

    def __init__(self, a=0, b=0, c=0, d=0):
        self.a, self.b, self.c, self.d = F(a), F(b), F(c), F(d)

    @staticmethod
    def of(x):
        if isinstance(x, QA):
            return x
        if isinstance(x, (complex, np.complexfloating)):
            return QA(F(float(x.real)), 0, F(float(x.imag)), 0)
        if isinstance(x, np.ndarray) and x.ndim == 0:
            return QA.of(x[()])
        return QA(F(x))

    # -- ring ------------------------------------------------------------------------------
    def __add__(self, o):
        o = QA.of(o)
        return QA(self.a + o.a, self.b + o.b, self.c + o.c, self.d + o.d)

    __radd__ = __add__

    def __neg__(self):
        return QA(-self.a, -self.b, -self.c, -self.d)

    def __sub__(self, o):
        return self + (-QA.of(o))

    def __rsub__(self, o):
        return QA.of(o) + (-self)

    def __mul__(self, o):
        o = QA.of(o)
        a, b, c, d = self.a, self.b, self.c, self.d
        e, f, g, h = o.a, o.b, o.c, o.d
        # (a + b s + (c + d s) i)(e + f s + (g + h s) i),  s^2 = 2
        re1 = a * e + 2 * b * f - (c * g + 2 * d * h)
        res = a * f + b * e - (c * h + d * g)
        im1 = a * g + 2 * b * h + c * e + 2 * d * f
        ims = a * h + b * g + c * f + d * e
        return QA(re1, res, im1, ims)

    __rmul__ = __mul__

    def _is_rational(self):
        return self.b == 0 and self.c == 0 and self.d == 0

    def inverse(self):
        # 1/z = conj_i(z) / N,  N = z*conj_i(z) in Q(sqrt2);  1/(p + q s) = (p - q s)/(p^2 - 2 q^2)
        ci = QA(self.a, self.b, -self.c, -self.d)
        nrm = self * ci           # imaginary part vanishes
        p, q = nrm.a, nrm.b
        den = p * p - 2 * q * q
        if den == 0:
            raise ZeroDivisionError('QA division by zero')
        inv_n = QA(p / den, -q / den)
        return ci * inv_n

    def __truediv__(self, o):
        o = QA.of(o)
        if o._is_rational():
            if o.a == 0:
                raise ZeroDivisionError('QA division by zero')
            return QA(self.a / o.a, self.b / o.a, self.c / o.a, self.d / o.a)
        return self * o.inverse()

    def __rtruediv__(self, o):
        return QA.of(o) * self.inverse()

    def __pow__(self, k):
        if not isinstance(k, (int, np.integer)):
            raise TypeError('QA ** non-integer')
        k = int(k)
        if k < 0:
            return (self ** (-k)).inverse()
        out, base = QA(1), self
        while k:
            if k & 1:
                out = out * base
            k >>= 1
            if k:
                base = base * base
        return out

    @property
    def real(self):
        return QA(self.a, self.b)

    @property
    def imag(self):
        return QA(self.c, self.d)

    def conjugate(self):
        return QA(self.a, self.b, -self.c, -self.d)

    def __eq__(self, o):
        o = QA.of(o)
        return (self.a, self.b, self.c, self.d) == (o.a, o.b, o.c, o.d)

    def __hash__(self):
        return hash((self.a, self.b, self.c, self.d))

    def is_zero(self):
        return self.a == 0 and self.b == 0 and self.c == 0 and self.d == 0

    def is_real(self):
        return self.c == 0 and self.d == 0

    def __complex__(self):
        import mpmath as mp
        s = mp.sqrt(2)
        re = mp.mpf(self.a.numerator) / self.a.denominator + s * mp.mpf(self.b.numerator) / self.b.denominator
        im = mp.mpf(self.c.numerator) / self.c.denominator + s * mp.mpf(self.d.numerator) / self.d.denominator
        return complex(float(re), float(im))

    def __float__(self):
        z = complex(self)
        return z.real

    def __abs__(self):
        return abs(complex(self))

    def __repr__(self):
        return 'QA(%s, %s, %s, %s)' % (self.a, self.b, self.c, self.d)


SQRT2 = QA(0, 1)
SQRT_J_EXACT = QA(0, Fraction(1, 2), 0, Fraction(1, 2))   # (1 + i)/sqrt2 = sqrt2/2 + i sqrt2/2


def frac_to_float(fr):
    """Correctly rounded-ish conversion of a (possibly huge) Fraction."""
    return fr.numerator / fr.denominator if fr.denominator != 0 else float('nan')
