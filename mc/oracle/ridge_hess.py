"""Deterministic scalar test functions of n variables with closed-form Hessians (DESIGN 4.5, C04).

Nothing here imports numdifftools.  A *spec* is a plain tuple (JSON round-trips after tuplify):

    ('quad', v)            0.5 x'Qx + c'x + d      (v in 0, 1: two coefficient sets, Q symmetric, no zero entry)
    ('esq',)               exp(a.x) + sin(b.x) + 0.5 x'Q0 x
    ('ridge', g, h)        g(a.x) * h(b.x)          g, h in RIDGE_FUNS
    ('cplx', p, q)         p(x) + 1j*q(x)           p, q real specs (real-step methods only)
    ('arr1', s)            np.array([s(x)])         the same value as a length-1 array

Every spec has three independent descriptions:
 * an *mv-program* (expression tree over the variables x_0..x_{n-1}) from which (a) the user function
   handed to the library is evaluated with indexing and elementwise arithmetic only (python ``sum`` over
   ``c[k]*x[k]``; works on float, complex and Bicomplex vectors) and (b) the restriction
   t -> f(x + t d) is produced as a one-variable expression program for mc.oracle.jets / scale;
 * the closed-form Hessian in mpmath (``hessian_exact``), written from the calculus formulas
   H = g''h aa' + g'h'(ab' + ba') + g h'' bb'  etc., sharing no code with the program evaluation;
 * ``analyse`` cross-checks the two through the polarisation identity
   H_ij = (D2_{s(e_i+e_j)} - D2_{s(e_i-e_j)}) / (4 s^2), s = float(sqrt(1/2)), and raises AssertionError on disagreement
   (an oracle defect, never a verdict).
"""
import math

import mpmath as mp
import numpy as np

from mc.oracle import jets
from mc.oracle import scale as sc

NMAX = 8
RIDGE_FUNS = ['exp', 'sin', 'cosh', 'arctan', 'sq', 'lor']      # sq = u^2, lor = 1/(2+u^2)
ENTIRE = {'exp', 'sin', 'cosh', 'sq'}

A_COEF = [0.3, -0.2, 0.25, -0.15, 0.1, -0.05, 0.2, -0.1]
B_COEF = [0.5, 0.25, -0.625, 1.0, -0.5, 0.375, -0.25, 0.125]
SQRT_HALF = math.sqrt(0.5)


def _q0(i, j):
    i, j = min(i, j), max(i, j)
    return float(((7 * i + 3 * j + i * j) % 5) - 2) + 0.5 + (2.0 if i == j else 0.0)


def _q1(i, j):
    i, j = min(i, j), max(i, j)
    return (-1.0) ** (i + j) * (i + 1) * (j + 2) / 4.0


def coefficients(v, n):
    """(Q, c, d) of quadratic variant v for n variables; Q symmetric without zero entries."""
    if v == 0:
        Q = [[_q0(i, j) for j in range(n)] for i in range(n)]
        c = [(-1.0) ** k * (k + 1) / 2.0 for k in range(n)]
        d = 0.75
    else:
        Q = [[_q1(i, j) for j in range(n)] for i in range(n)]
        c = [0.5 * (k + 1) - 1.25 for k in range(n)]
        d = -1.25
    return Q, c, d


# ---------------------------------------------------------------------------------------------
# mv-programs:  ('var', k) ('c', v) ('s', c, e) ('u', name, e) ('b', op, e1, e2) ('sum', [e, ...])

def _lin(c, n):
    return ('sum', tuple(('s', c[k], ('var', k)) for k in range(n)))


def _qf(Q, n):
    return ('s', 0.5, ('sum', tuple(('b', '*', ('var', i), ('sum', tuple(('s', Q[i][j], ('var', j)) for j in range(n))))
                                    for i in range(n))))


def mv_program(spec, n):
    """Expression tree of a REAL spec over n variables."""
    kind = spec[0]
    if kind == 'quad':
        Q, c, d = coefficients(spec[1], n)
        return ('b', '+', ('b', '+', _qf(Q, n), _lin(c, n)), ('c', d))
    if kind == 'esq':
        Q, _, _ = coefficients(0, n)
        return ('b', '+', ('b', '+', ('u', 'exp', _lin(A_COEF, n)), ('u', 'sin', _lin(B_COEF, n))), _qf(Q, n))
    if kind == 'ridge':
        return ('b', '*', ('u', spec[1], _lin(A_COEF, n)), ('u', spec[2], _lin(B_COEF, n)))
    raise ValueError(spec)


def _unary(name, u):
    if name == 'sq':
        return u * u
    if name == 'lor':
        return 1.0 / (2.0 + u * u)
    if isinstance(u, (np.ndarray, np.generic, float, complex, int)):
        return getattr(np, name)(u)
    return getattr(u, name)()            # Bicomplex-like objects carry the functions as methods


def mv_eval(prog, var):
    """Evaluate an mv-program; var(k) returns the k-th variable (x[k] or the slice x[k:k+1])."""
    tag = prog[0]
    if tag == 'var':
        return var(prog[1])
    if tag == 'c':
        return prog[1]
    if tag == 's':
        return prog[1] * mv_eval(prog[2], var)
    if tag == 'u':
        return _unary(prog[1], mv_eval(prog[2], var))
    if tag == 'sum':
        return sum(mv_eval(e, var) for e in prog[1])
    if tag == 'b':
        a, b = mv_eval(prog[2], var), mv_eval(prog[3], var)
        op = prog[1]
        return a + b if op == '+' else a - b if op == '-' else a * b if op == '*' else a / b
    raise ValueError(prog)


def base_specs(spec):
    """The real specs a spec is built from: [(weight, real_spec)], f = sum weight * real_spec."""
    if spec[0] == 'arr1':
        return base_specs(spec[1])
    if spec[0] == 'cplx':
        return [(1.0, spec[1]), (1j, spec[2])]
    return [(1.0, spec)]


def retkind(spec):
    if spec[0] == 'arr1':
        return 'length-1-array-valued-f'
    if spec[0] == 'cplx':
        return 'complex-valued-f'
    return 'scalar-valued-f'


def family(spec):
    if spec[0] in ('arr1',):
        return family(spec[1])
    if spec[0] == 'cplx':
        return 'cplx'
    return spec[0]


def make_fun(spec, n):
    """The user function handed to the library (indexing + elementwise arithmetic only)."""
    if spec[0] == 'arr1':
        inner = spec[1]
        progs = [(w, mv_program(s, n)) for w, s in base_specs(inner)]

        def f_arr1(x):
            if isinstance(x, np.ndarray):
                val = _combine(progs, lambda k: x[k])
                return np.array([val])
            return _combine(progs, lambda k: x[k:k + 1])      # Bicomplex vector: length-1 slices
        return f_arr1
    progs = [(w, mv_program(s, n)) for w, s in base_specs(spec)]

    def f(x):
        return _combine(progs, lambda k: x[k])
    return f


def _combine(progs, var):
    if len(progs) == 1:
        return mv_eval(progs[0][1], var)
    return mv_eval(progs[0][1], var) + 1j * mv_eval(progs[1][1], var)


def show(spec, n=None):
    kind = spec[0]
    if kind == 'quad':
        return '0.5x\'Q%dx+c%d\'x+d%d' % (spec[1], spec[1], spec[1])
    if kind == 'esq':
        return 'exp(a.x)+sin(b.x)+0.5x\'Q0x'
    if kind == 'ridge':
        return '%s(a.x)*%s(b.x)' % (spec[1], spec[2])
    if kind == 'cplx':
        return '(%s)+1j*(%s)' % (show(spec[1]), show(spec[2]))
    return 'array([%s])' % show(spec[1])


# ---------------------------------------------------------------------------------------------
# restriction to a line: one-variable expression program in t for jets / scale

def restrict(prog, x, d):
    """jets program of t -> prog(x + t*d); x, d sequences of python floats."""
    tag = prog[0]
    if tag == 'var':
        k = prog[1]
        if d[k] == 0.0:
            return ('c', float(x[k]))
        return ('b', '+', ('c', float(x[k])), ('s', float(d[k]), ('x',)))
    if tag == 'c':
        return ('c', float(prog[1]))
    if tag == 's':
        return ('s', float(prog[1]), restrict(prog[2], x, d))
    if tag == 'u':
        e = restrict(prog[2], x, d)
        if prog[1] == 'sq':
            return ('p', e, 2)
        if prog[1] == 'lor':
            return ('b', '/', ('c', 1.0), ('b', '+', ('c', 2.0), ('p', e, 2)))
        return ('u', prog[1], e)
    if tag == 'sum':
        items = [restrict(e, x, d) for e in prog[1]]
        out = items[0]
        for it in items[1:]:
            out = ('b', '+', out, it)
        return out
    if tag == 'b':
        return ('b', prog[1], restrict(prog[2], x, d), restrict(prog[3], x, d))
    raise ValueError(prog)


def direction(n, i, j=None, sign=0):
    d = [0.0] * n
    if j is None or j == i:
        d[i] = 1.0
    else:
        d[i] = SQRT_HALF
        d[j] = sign * SQRT_HALF
    return d


# ---------------------------------------------------------------------------------------------
# closed forms (mpmath), independent of the programs above

def _g012(name, u):
    """(g, g', g'') of a ridge profile at the mpmath number u."""
    if name == 'exp':
        e = mp.exp(u)
        return e, e, e
    if name == 'sin':
        return mp.sin(u), mp.cos(u), -mp.sin(u)
    if name == 'cosh':
        return mp.cosh(u), mp.sinh(u), mp.cosh(u)
    if name == 'arctan':
        w = 1 + u * u
        return mp.atan(u), 1 / w, -2 * u / w ** 2
    if name == 'sq':
        return u * u, 2 * u, mp.mpf(2)
    if name == 'lor':
        w = 2 + u * u
        return 1 / w, -2 * u / w ** 2, (6 * u * u - 4) / w ** 3
    raise ValueError(name)


def _dot(c, x, n):
    return mp.fsum(mp.mpf(c[k]) * mp.mpf(x[k]) for k in range(n))


def _hess_real(spec, x):
    n = len(x)
    kind = spec[0]
    if kind == 'quad':
        Q, _, _ = coefficients(spec[1], n)
        return [[mp.mpf(Q[i][j]) for j in range(n)] for i in range(n)]
    a = [mp.mpf(v) for v in A_COEF[:n]]
    b = [mp.mpf(v) for v in B_COEF[:n]]
    u, v = _dot(A_COEF, x, n), _dot(B_COEF, x, n)
    if kind == 'esq':
        Q, _, _ = coefficients(0, n)
        eu, sv = mp.exp(u), mp.sin(v)
        return [[eu * a[i] * a[j] - sv * b[i] * b[j] + mp.mpf(Q[i][j]) for j in range(n)] for i in range(n)]
    if kind == 'ridge':
        g0, g1, g2 = _g012(spec[1], u)
        h0, h1, h2 = _g012(spec[2], v)
        return [[g2 * h0 * a[i] * a[j] + g1 * h1 * (a[i] * b[j] + b[i] * a[j]) + g0 * h2 * b[i] * b[j]
                 for j in range(n)] for i in range(n)]
    raise ValueError(spec)


def hessian_exact(spec, x):
    """n x n nested list of mpmath numbers (mpc for complex-valued specs): the exact Hessian at x."""
    n = len(x)
    out = [[mp.mpf(0)] * n for _ in range(n)]
    for w, s in base_specs(spec):
        H = _hess_real(s, x)
        wm = mp.mpmathify(w)
        out = [[out[i][j] + wm * H[i][j] for j in range(n)] for i in range(n)]
    return out


def quad_scale(spec, x):
    """h-free rounding size of a second difference of a quadratic (see C04 rule text):
    sum|Q| + sum_k (|Q||x| + |c|)_k + N(|x|),  N(y) = 0.5 y'|Q|y + |c|'y + |d|.  None for non-quadratics."""
    n = len(x)
    tot = 0.0
    for w, s in base_specs(spec):
        if s[0] != 'quad':
            return None
        Q, c, d = coefficients(s[1], n)
        ax = [abs(float(v)) for v in x]
        qx = [sum(abs(Q[i][j]) * ax[j] for j in range(n)) for i in range(n)]
        tot += abs(w) * (sum(abs(Q[i][j]) for i in range(n) for j in range(n))
                         + sum(qx[k] + abs(c[k]) for k in range(n))
                         + 0.5 * sum(ax[k] * qx[k] for k in range(n)) + sum(abs(c[k]) * ax[k] for k in range(n)) + abs(d))
    return tot


# ---------------------------------------------------------------------------------------------
# per-entry oracle quantities

class HessOracle(object):
    """Exact Hessian, local scale S_2 per entry, analyticity radius per entry (all oracle side)."""
    __slots__ = ('n', 'x', 'Hmp', 'H', 'S', 'R', 'rho', 'resolved', 'complex_valued', 'qscale', 'worst_selfcheck')


def _dir_analysis(progs, x, d, nom, ladder_top):
    """Analyse every real part along direction d; returns (D2 (mp, weighted sum), S_2, R_an, rho, resolved)."""
    ans = []
    for w, p in progs:
        an = sc.analyse(restrict(p, x, d), 0.0, ladder_top=ladder_top)
        ans.append((w, an))
    R = min(an.R_an for _, an in ans)
    rho = min(nom, R / 2.0)
    S, ok = 0.0, R > 0
    D2 = mp.mpf(0)
    for w, an in ans:
        s, _, r = an.scale(2, rho=rho)
        S += abs(w) * s
        ok = ok and r
        D2 = D2 + mp.mpmathify(w) * an.exact(2)
    return D2, S, R, rho, ok


def analyse(spec, x):
    """HessOracle of spec at the point x (sequence of floats).  S for entry (i, j) is the largest S_2 of the
    restrictions of f to the lines through x along e_i, e_j, (e_i +- e_j)/sqrt2; R the smallest analyticity
    radius of those restrictions; rho = min(step_nom(max(|x_i|,|x_j|)), R/2)."""
    x = [float(v) for v in x]
    n = len(x)
    o = HessOracle()
    o.n, o.x = n, x
    parts = base_specs(spec)
    o.complex_valued = len(parts) > 1
    progs = [(w, mv_program(s, n)) for w, s in parts]
    o.Hmp = hessian_exact(spec, x)
    o.qscale = quad_scale(spec, x)
    top = 64.0 * max(sc.step_nom(v) for v in x)
    axis = {}
    for i in range(n):
        axis[i] = _dir_analysis(progs, x, direction(n, i), sc.step_nom(x[i]), top)
    S = np.zeros((n, n))
    R = np.zeros((n, n))
    rho = np.zeros((n, n))
    res = np.zeros((n, n), dtype=bool)
    worst = 0.0
    for i in range(n):
        D2, s, r, rh, ok = axis[i]
        S[i, i], R[i, i], rho[i, i], res[i, i] = s, r, rh, ok
        worst = max(worst, _selfcheck(D2, o.Hmp[i][i], s, spec, x, (i, i)))
        for j in range(i + 1, n):
            nom = sc.step_nom(max(abs(x[i]), abs(x[j])))
            plus = _dir_analysis(progs, x, direction(n, i, j, +1), nom, top)
            minus = _dir_analysis(progs, x, direction(n, i, j, -1), nom, top)
            four = [axis[i], axis[j], plus, minus]
            S[i, j] = S[j, i] = max(t[1] for t in four)
            R[i, j] = R[j, i] = min(t[2] for t in four)
            rho[i, j] = rho[j, i] = min(t[3] for t in four)
            res[i, j] = res[j, i] = all(t[4] for t in four)
            # d = s*(e_i +- e_j) with s = float(sqrt(1/2)) exactly as used: D2_+ - D2_- = 4 s^2 H_ij
            pol = (plus[0] - minus[0]) / (4 * mp.mpf(SQRT_HALF) ** 2)
            worst = max(worst, _selfcheck(pol, o.Hmp[i][j], S[i, j], spec, x, (i, j)))
    o.S, o.R, o.rho, o.resolved = S, R, rho, res
    o.worst_selfcheck = worst
    if o.complex_valued:
        o.H = np.array([[complex(o.Hmp[i][j]) for j in range(n)] for i in range(n)])
    else:
        o.H = np.array([[float(o.Hmp[i][j]) for j in range(n)] for i in range(n)])
    return o


def _selfcheck(from_jets, closed, S, spec, x, ij):
    """The jets of the restricted programs and the closed form must agree to working precision."""
    diff = abs(from_jets - closed)
    tol = mp.mpf(10) ** -40 * (abs(closed) + mp.mpf(S) + 1)
    if not diff <= tol:
        raise AssertionError('ridge_hess oracle self-check failed: %r at %r entry %r: jets %s closed form %s'
                             % (spec, x, ij, mp.nstr(from_jets, 20), mp.nstr(closed, 20)))
    return float(diff / (abs(closed) + mp.mpf(S) + 1))


def tuplify(o):
    if isinstance(o, list):
        return tuple(tuplify(v) for v in o)
    return o
