"""Local size of f (DESIGN 4.2): analyticity radius, evaluation-noise magnitude, scale S_n.

All quantities are computed by the oracle from the expression program alone (jets in 60-digit
arithmetic); nothing here looks at what the library returns.
"""
import math

import mpmath as mp

from mc.oracle import jets

K_DEFAULT = 40
PI = math.pi


def step_nom(x):
    return max(math.log(1.718281828459045 + abs(x)), 1.0)


def _majorant(j, rho):
    """sum_{k>=1} |j_k| rho^k and whether the tail has decayed."""
    s = 0.0
    terms = []
    p = 1.0
    for k in range(1, len(j)):
        p *= rho
        t = float(abs(j[k])) * p
        terms.append(t)
        s += t
    if not math.isfinite(s):
        return float('inf'), False
    tail = max(terms[-3:]) if terms else 0.0
    decayed = tail <= 1e-3 * max(s, float(abs(j[0])), 1e-300)
    return s, decayed


def _node_safe(prog, kids, rho):
    """Is the operator at this node analytic on the image disc of its argument(s)?"""
    tag = prog[0]
    if tag in ('x', 'c', 's'):
        return True
    if tag == 'b':
        if prog[1] in ('L', 'L2'):
            # log(e^a + e^b): both exponentials stay in the open right half plane while |Im| < pi/2
            f = 1.0 if prog[1] == 'L' else math.log(2.0)
            (ra, oka), (rb, okb) = _majorant(kids[0], rho), _majorant(kids[1], rho)
            return oka and okb and f * ra < PI / 2 and f * rb < PI / 2
        if prog[1] != '/':
            return True
        den = kids[1]
        rad, ok = _majorant(den, rho)
        return ok and rad < float(abs(den[0]))
    if tag == 'pw':
        # u**v = exp(v log u): the base must stay in the right half plane, away from 0
        base = kids[0]
        rad, ok = _majorant(base, rho)
        rad2, ok2 = _majorant(kids[1], rho)
        return ok and ok2 and float(mp.re(base[0])) - rad > 0
    child = kids[0]
    c = child[0]
    rad, ok = _majorant(child, rho)
    if not ok:
        return False
    cr = float(mp.re(c))
    ca = float(abs(c))
    if tag == 'p':
        r = prog[2]
        if float(r) == int(r):
            if r >= 0:
                return True
            return rad < ca
        return cr - rad > 0
    name = prog[1]
    if name in ('exp', 'sin', 'cos', 'sinh', 'cosh', 'expm1', 'exp2'):
        return True
    if name in ('log', 'sqrt', 'log2', 'log10'):
        return cr - rad > 0
    if name == 'log1p':
        return 1 + cr - rad > 0
    if name in ('arcsin', 'arccos', 'arctanh'):
        return ca + rad < 1
    if name == 'arccosh':
        return cr - rad > 1
    if name in ('arctan', 'arcsinh'):
        return rad < math.sqrt(cr * cr + 1.0)
    if name in ('tan', 'sec'):
        # poles of tan at pi/2 + k pi
        u = (cr - PI / 2) % PI
        return rad < min(u, PI - u)
    if name in ('cot', 'csc'):
        u = cr % PI
        return rad < min(u, PI - u)
    if name in ('tanh', 'sech'):
        return rad < math.sqrt(cr * cr + (PI / 2) ** 2)
    if name in ('coth', 'csch'):
        return rad < ca
    raise ValueError(name)


def _partials(prog, kids):
    """|d node / d child| at the expansion point, for the running-error bound."""
    tag = prog[0]
    if tag == 's':
        return [abs(float(prog[1]))]
    if tag == 'b':
        a0, b0 = kids[0][0], kids[1][0]
        op = prog[1]
        if op in ('+', '-', 'L', 'L2'):
            return [1.0, 1.0]       # (logaddexp: the partial derivatives are the two softmax weights, <= 1)
        if op == '*':
            return [float(abs(b0)), float(abs(a0))]
        return [float(1 / abs(b0)), float(abs(a0) / abs(b0) ** 2)]
    if tag == 'pw':
        u0, v0 = kids[0][0], kids[1][0]
        val = mp.power(u0, v0)
        return [float(abs(val * v0 / u0)), float(abs(val * mp.log(u0)))]
    c = kids[0][0]
    if tag == 'p':
        j = jets.powr(jets.var(c, 2), prog[2])
    else:
        j = jets.UNARY[prog[1]](jets.var(c, 2))
    return [float(abs(j[1]))]


class Analysis(object):
    """Result of analysing program prog at x0 (real float)."""
    __slots__ = ('jet', 'R_an', 'noise', 'x0', 'K', 'ok', 'why', '_absc', '_mc')

    def coeff_abs(self, k):
        return float(abs(self.jet[k]))

    def exact(self, n):
        return jets.derivative(self.jet, n)

    def scale(self, n, hmax=None, rho=None):
        """S_n = n! rho^-n max(N_f, max_k |a_k| rho^k); returns (S_n, rho, resolved)."""
        if rho is None:
            rho = min(step_nom(self.x0), self.R_an / 2.0)
        if not rho > 0:
            return float('inf'), rho, False
        if getattr(self, '_mc', None) is None:
            self._mc = {}
        cache = self._mc
        hit = cache.get(rho)
        if hit is None:
            if getattr(self, '_absc', None) is None:
                self._absc = [float(abs(a)) for a in self.jet]
            m = self.noise
            p = 1.0
            last = 0.0
            for t0 in self._absc:
                t = t0 * p
                last = t
                if t > m:
                    m = t
                p *= rho
            hit = (m, last <= 1e-3 * m and math.isfinite(m))
            cache[rho] = hit
        m, resolved = hit
        S = math.factorial(n) * m / rho ** n
        return S, rho, resolved and math.isfinite(S)


def analyse(prog, x0, K=K_DEFAULT, ladder_top=None):
    """Jets, analyticity radius and noise magnitude of prog at x0.  Raises jets.DomainError when x0 is
    not in the (real) domain of the program."""
    res = Analysis()
    res.x0, res.K = float(x0), K
    nodes = []
    res.jet = jets.eval_jet(prog, x0, K, nodes)
    # running-error (evaluation noise) magnitude in absolute units
    noise = {}
    for idx, (p, kids, j) in enumerate(nodes):
        if p[0] == 'x':
            nz = abs(float(x0))
        elif p[0] == 'c':
            nz = 0.0
        else:
            parts = _partials(p, kids)
            nz = float(abs(j[0]))
            for kid, d in zip(kids, parts):
                nz += d * noise[id(kid)]
        noise[id(j)] = nz
    res.noise = noise[id(res.jet)]
    if not math.isfinite(res.noise):
        raise jets.DomainError('non-finite noise')
    top = ladder_top if ladder_top is not None else 32.0 * step_nom(x0)
    rho = top
    R = 0.0
    for _ in range(60):
        if all(_node_safe(p, kids, rho) for p, kids, j in nodes) and _majorant(res.jet, rho)[1]:
            R = rho
            break
        rho /= 2.0
    res.R_an = R
    res.ok = R > 0
    res.why = ''
    return res
