"""E3 - controlled thread scheduler on sys.monitoring (PEP 669), pre-emption bounded exploration.

Real threading.Thread objects; exactly one holds the baton at any time.  A monitoring tool fires a
callback at every executed LINE (or INSTRUCTION) of code whose file lies under the library
directory; the callback is a scheduling point: the current schedule decides whether the running
thread continues or hands the baton to another thread.

A schedule is a list of pre-emptions [(point_index, target_thread), ...]: at the global point
`point_index` the baton goes to `target_thread`; everywhere else the running thread continues, and
when a thread finishes the lowest-numbered unfinished thread continues (non-pre-emptive default).
"""
import os
import sys
import threading

MON = sys.monitoring
TOOL = MON.PROFILER_ID


class Divergence(Exception):
    pass


class Run(object):
    """One controlled execution of `bodies` (callables) under `schedule`."""

    def __init__(self, bodies, schedule, libdir, granularity='line', record=True):
        self.bodies = bodies
        self.schedule = dict(schedule)      # point index -> target thread
        self.libdir = libdir
        self.gran = granularity
        self.n = len(bodies)
        self.sems = [threading.Semaphore(0) for _ in bodies]
        self.done = [False] * self.n
        self.results = [None] * self.n
        self.points = []                    # (thread, location) per scheduling point
        self.idents = {}
        self.current = None
        self.finished = threading.Semaphore(0)
        self.record = record
        self.switches = 0
        self.invalid = None

    # -- scheduling point (runs inside the thread that holds the baton) ---------------------------
    def _point(self, tid, loc):
        idx = len(self.points)
        self.points.append((tid, loc) if self.record else tid)
        tgt = self.schedule.get(idx)
        if tgt is not None and tgt != tid:
            if self.done[tgt]:
                self.invalid = 'pre-emption to finished thread %d at point %d' % (tgt, idx)
                return
            self.switches += 1
            self.current = tgt
            self.sems[tgt].release()
            self.sems[tid].acquire()

    def _cb_line(self, code, line):
        tid = self.idents.get(threading.get_ident())
        if tid is None:
            return None
        if not code.co_filename.startswith(self.libdir):
            return MON.DISABLE
        self._point(tid, (os.path.basename(code.co_filename), line))
        return None

    def _cb_instr(self, code, offset):
        tid = self.idents.get(threading.get_ident())
        if tid is None:
            return None
        if not code.co_filename.startswith(self.libdir):
            return MON.DISABLE
        self._point(tid, (os.path.basename(code.co_filename), code.co_name, offset))
        return None

    def _thread_main(self, tid):
        self.idents[threading.get_ident()] = tid
        self.sems[tid].acquire()            # wait for the baton
        try:
            self.results[tid] = ('ok', self.bodies[tid]())
        except BaseException as e:          # the exception is part of the observation
            self.results[tid] = ('exc', type(e).__name__, str(e))
        self.done[tid] = True
        # hand the baton to the lowest-numbered unfinished thread
        for j in range(self.n):
            if not self.done[j]:
                self.current = j
                self.sems[j].release()
                return
        self.finished.release()

    def execute(self, first=0):
        threads = [threading.Thread(target=self._thread_main, args=(i,), daemon=True) for i in range(self.n)]
        MON.use_tool_id(TOOL, 'verif-sched')
        try:
            if self.gran == 'line':
                MON.register_callback(TOOL, MON.events.LINE, self._cb_line)
                MON.set_events(TOOL, MON.events.LINE)
            else:
                MON.register_callback(TOOL, MON.events.INSTRUCTION, self._cb_instr)
                MON.set_events(TOOL, MON.events.INSTRUCTION)
            MON.restart_events()
            for t in threads:
                t.start()
            # all threads are parked on their semaphores; start the first one
            while len(self.idents) < self.n:
                pass
            self.current = first
            self.sems[first].release()
            if not self.finished.acquire(timeout=120):
                raise Divergence('execution did not finish (deadlock or runaway) under schedule %r'
                                 % sorted(self.schedule.items()))
        finally:
            MON.set_events(TOOL, 0)
            MON.register_callback(TOOL, MON.events.LINE, None)
            MON.register_callback(TOOL, MON.events.INSTRUCTION, None)
            MON.free_tool_id(TOOL)
        for t in threads:
            t.join(timeout=10)
        return self


def explore(make_bodies, libdir, bound, granularity='line', check=None, reset=None, shard=None,
            max_runs=None):
    """Iterative context bounding.  make_bodies() -> list of fresh callables (fresh objects per run).
    check(run, schedule) is called after every execution.  shard = (k, m): only first-level
    pre-emption indices i with i % m == k are explored by this worker (bound >= 1).
    Returns dict(schedules, points_max, switches_max)."""
    stats = dict(schedules=0, points_max=0, capped=False)

    def one(schedule):
        if reset:
            reset()
        run = Run(make_bodies(), schedule, libdir, granularity, record=True).execute()
        stats['schedules'] += 1
        stats['points_max'] = max(stats['points_max'], len(run.points))
        if run.invalid:
            raise Divergence(run.invalid)
        if check:
            check(run, schedule)
        return run

    def rec(schedule, run, level):
        if level >= bound:
            return
        start = (schedule[-1][0] + 1) if schedule else 0
        n_threads = run.n
        # a thread is unfinished at point i iff it still has a scheduling point at or after i
        last_point_of = {}
        for i, (tid, loc) in enumerate(run.points):
            last_point_of[tid] = i
        for i in range(start, len(run.points)):
            tid = run.points[i][0]
            if level == 0 and shard is not None and i % shard[1] != shard[0]:
                continue
            for tgt in range(n_threads):
                if tgt == tid or last_point_of.get(tgt, -1) < i:
                    continue
                if max_runs and stats['schedules'] >= max_runs:
                    stats['capped'] = True
                    return
                s2 = schedule + [(i, tgt)]
                r2 = one(s2)
                # the prefix up to point i must replay identically (ownership of nondeterminism)
                if [p[0] for p in r2.points[:i + 1]] != [p[0] for p in run.points[:i + 1]] or \
                        [p[1] for p in r2.points[:i + 1]] != [p[1] for p in run.points[:i + 1]]:
                    raise Divergence('prefix of schedule %r did not replay identically' % (s2,))
                rec(s2, r2, level + 1)

    base = one([])
    rec([], base, 0)
    return stats
