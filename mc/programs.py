"""Expression-program grammar of C01/C02 (DESIGN 5/C01), generated simplest first."""
from mc.oracle import jets

PRIMS = ['exp', 'log', 'sqrt', 'sin', 'cos', 'tan', 'sinh', 'cosh', 'tanh', 'arctan', 'arcsin',
         'arcsinh', 'arctanh', 'expm1', 'log1p']
POWERS = [2, 3, 5, -1, -2, 0.5, 1.5, -0.5, 2.0, 3.0]      # (2.0, 3.0: integer-valued exponents given as Python floats)
SCALES = [0.5, 2, 3]
X = ('x',)


def depth1():
    progs = [X]
    progs += [('p', X, r) for r in POWERS]
    progs += [('u', u, X) for u in PRIMS]
    progs += [('u', u, ('s', c, X)) for u in PRIMS for c in SCALES]
    progs += [('p', ('u', u, X), r) for u in PRIMS for r in (2, -1, 0.5)]
    return progs


def depth2():
    progs = [('u', u, ('u', v, X)) for u in PRIMS for v in PRIMS]
    progs += [('b', op, ('u', u, X), ('u', v, X)) for op in '+*' for i, u in enumerate(PRIMS) for v in PRIMS[i:]]
    for i, u in enumerate(PRIMS):
        for j in range(i + 1, len(PRIMS)):
            v = PRIMS[j]
            a, b = (u, v) if (i + j) % 2 == 0 else (v, u)       # every unordered pair once, orientation alternating
            progs.append(('b', '-', ('u', a, X), ('u', b, X)))
            progs.append(('b', '/', ('u', b, X), ('u', a, X)))
    # polynomials and rational functions
    progs += [
        ('b', '+', ('b', '-', ('p', X, 3), ('s', 2, ('p', X, 2))), ('b', '+', ('s', 0.5, X), ('c', 1))),
        ('b', '-', ('p', X, 5), ('s', 3, ('p', X, 2))),
        ('b', '/', ('c', 1), ('b', '+', ('c', 1), ('p', X, 2))),
        ('b', '/', ('b', '+', X, ('c', 2)), ('b', '+', ('c', 3), ('p', X, 2))),
        ('b', '*', ('b', '-', X, ('c', 0.5)), ('b', '*', ('b', '+', X, ('c', 2)), X)),
    ]
    progs += [('p', ('u', u, ('s', c, X)), r) for u in ('sin', 'exp', 'cosh', 'arctan') for c in (2, 3)
              for r in (3, 5, -2, 1.5, -0.5)]
    return progs


INNER3 = ['exp', 'sin', 'tanh', 'sqrt']


def depth3():
    return [('u', u, ('u', v, ('u', w, X))) for u in PRIMS for v in PRIMS for w in INNER3]


def _shift(c):
    return ('b', '-', X, ('c', c))


# programs with a stationary point / inflection point AT a pool point (the derivative is exactly 0 there, so the
# whole returned value is error and only an absolute error estimate can be honest)
STATIONARY = [('p', _shift(0.75), 2), ('u', 'cosh', _shift(1.5)), ('u', 'cos', _shift(0.3)), ('p', _shift(0.75), 3),
              ('u', 'sin', _shift(1.5)), ('b', '-', ('u', 'exp', _shift(4.0)), X), ('p', _shift(-2.0), 4)]


def programs(tier):
    progs = depth1() + STATIONARY
    if tier == 'thorough':
        progs = progs + depth2() + depth3()
    return progs


def outer_op(prog):
    if prog[0] == 'u':
        return prog[1]
    if prog[0] == 'p':
        return 'pow'
    if prog[0] == 'b':
        return prog[1]
    return prog[0]


def inner_op(prog):
    """innermost operator applied directly to x"""
    if prog[0] in ('x', 'c'):
        return None
    kids = [k for k in prog[1:] if isinstance(k, tuple)]
    for k in kids:
        if k == X or (k[0] == 's' and k[2] == X):
            return outer_op(prog)
    for k in kids:
        r = inner_op(k)
        if r:
            return r
    return None


def uses_nonanalytic_for_negative(prog):
    return False
