"""C09 - results depend only on (function, point, configuration), not on history (DESIGN 5/C09).

E2: level-synchronised BFS over operation histories of real Derivative objects (exact-digest
quotient); after every call the observation must equal, bit for bit, the observation of a FRESH
INTERPRETER performing only that call.  E3: every interleaving of 2 (3) real threads with a bounded
number of pre-emptions at every executed line (instruction) of the library.
"""
import copy
import itertools
import json
import os
import subprocess
import sys
import warnings

import numpy as np

from mc import framework as fw
from mc.props import c09_ref as ref

LEVEL = 'model_checking'
LIBDIR = os.path.join(fw.REPO_SRC, 'numdifftools')
# configuration pool: (fname, method, n, order, gen)
POOL = [('exp', 'central', 1, 2, 'default'), ('exp', 'central', 1, 4, 'default'), ('exp', 'central', 2, 2, 'default'),
        ('exp', 'forward', 1, 2, 'default'), ('exp', 'complex', 3, 2, 'default'), ('exp', 'central', 1, 4, 'ratio3')]
# multivariate classes (a class-level scratch object or cache in THEIR difference functions must show as well)
MPOOL = [('mexp', 'central', 2, 2, 'default', 'Hessdiag'), ('mexp', 'forward', 2, 2, 'default', 'Hessdiag'),
         ('mexp', 'central', 1, 2, 'default', 'Gradient'), ('mexp', 'central', 2, None, 'default', 'Hessian'),
         ('vexp', 'forward', 1, 2, 'default', 'Jacobian')]
# further configurations used by thread pairs only (not part of the history alphabet)
XPOOL = [('exp', 'complex', 1, 2, 'default'), ('exp', 'complex', 2, 4, 'default'),
         ('wexp', 'central', 1, 2, 'default')]       # a user function that emits a warning on every evaluation
POOL_ALL = POOL + MPOOL + XPOOL


def cls_of(cfg):
    return cfg[5] if len(cfg) > 5 else 'Derivative'


XS = [0.5, 2.0, [0.5, 2.0], [30.0, 0.5]]
BUF_XI = (2, 3)     # array points that are also presented through one persistent, in-place updated ndarray
SLOTS = ['A', 'B']
N_ALT, O_ALT, M_ALT = [1, 2, 3], [2, 4], ['central', 'forward']


def ref_key(cfg, xi):
    return '%s/%s/%r/%r/%s/%s@%d' % (cfg[0], cfg[1], cfg[2], cfg[3], cfg[4], cls_of(cfg), xi)


def all_ref_jobs():
    jobs = []
    for method in ('central', 'forward', 'complex'):
        for n in N_ALT:
            for order in O_ALT:
                for gen in ('default', 'max', 'min', 'ratio3'):
                    for xi in range(len(XS)):
                        jobs.append((('exp', method, n, order, gen), xi))
    jobs.append((('wexp', 'central', 1, 2, 'default'), 0))
    for cfg in MPOOL:
        for method in M_ALT:
            for order in ([None] if cls_of(cfg) == 'Hessian' else O_ALT):
                for xi in BUF_XI:
                    jobs.append(((cfg[0], method, cfg[2], order, 'default', cfg[5]), xi))
    return jobs


def work_refs(chunk):
    """each reference in its own fresh interpreter"""
    acc = fw.Acc()
    out = {}
    script = os.path.join(os.path.dirname(os.path.abspath(__file__)), 'c09_ref.py')
    for cfg, xi in chunk:
        c = dict(fname=cfg[0], method=cfg[1], n=cfg[2], order=cfg[3], gen=cfg[4], x=XS[xi], cls=cls_of(cfg))
        env = dict(os.environ)
        r = subprocess.run([sys.executable, script, json.dumps(c)], capture_output=True, text=True, env=env)
        if r.returncode != 0:
            raise fw.HarnessError('reference interpreter failed: ' + r.stderr[-500:])
        out[ref_key(cfg, xi)] = json.loads(r.stdout.strip().splitlines()[-1])
    acc.extra['refs'] = out
    return acc


# ---------------------------------------------------------------------------------------------
# worlds

class World(object):
    def __init__(self, ms):
        from numdifftools.step_generators import MinStepGenerator, MaxStepGenerator
        self.slots = {s: None for s in SLOTS}
        self.orig = {s: None for s in SLOTS}
        self.gen = {s: None for s in SLOTS}
        self.shared = {'max': MaxStepGenerator(), 'min': MinStepGenerator()}
        self.buf = np.zeros(2)
        self.mod = [copy.deepcopy(p) for p in ms.pristine]

    def load(self, ms):
        """install this world's module state into the real module containers"""
        for (label, c), p in zip(ms.items, self.mod):
            _assign(c, copy.deepcopy(p))

    def save(self, ms):
        self.mod = [copy.deepcopy(c) for _, c in ms.items]

    def digest(self):
        from mc.engine_states import digest
        return digest(self.slots, self.orig, self.gen, self.shared, self.mod, self.buf)


def _assign(c, p):
    if isinstance(c, dict):
        c.clear()
        c.update(p)
    elif isinstance(c, list):
        c[:] = p
    elif isinstance(c, set):
        c.clear()
        c.update(p)
    elif isinstance(c, np.ndarray):
        c[...] = p


SINGLE_NEW = [(0, 'own'), (0, 'max'), (4, 'own'), (6, 'own'), (2, 'own'), (1, 'max'), (5, 'own'), (0, 'min'), (3, 'own'), (7, 'own'),
              (8, 'own'), (9, 'own'), (10, 'own')]


def object_ops(world, s):
    obj = world.slots[s]
    multi = cls_of(world.orig[s]) != 'Derivative'
    ops = []
    for xi in (BUF_XI if multi else range(len(XS))):
        ops.append(('call', s, xi))
    for xi in BUF_XI:
        ops.append(('callbuf', s, xi))
    ops.append(('abort', s, 2, 1))         # the user function raises at its 2nd / 4th evaluation: the call is
    ops.append(('abort', s, 2, 3))         # abandoned half-way, the exception propagates to the caller
    if not multi:
        # the documented zero-order request (n = 0: the extrapolated function value) made on this object in between:
        # n is set to 0, the object is called, n is put back -- afterwards the object is configured as before
        ops.append(('zeroth', s, 2))
        for n in N_ALT:
            if n != obj.n:
                ops.append(('set', s, 'n', n))
    if cls_of(world.orig[s]) != 'Hessian':
        for o in O_ALT:
            if o != obj.order:
                ops.append(('set', s, 'order', o))
    if world.orig[s][1] != 'complex':
        for m in M_ALT:
            if m != obj.method:
                ops.append(('set', s, 'method', m))
    if not multi and world.orig[s][1] != 'complex' and world.gen[s] in ('default', 'max', 'min'):
        # the documented, settable `step` attribute: another generator object (shared ones) or None (the default)
        for g in ('default', 'max', 'min'):
            if g != world.gen[s]:
                ops.append(('setstep', s, g))
    now = (obj.method, obj.n, obj.order) if not multi else (obj.method, world.orig[s][2], obj.order)
    if now != tuple(world.orig[s][1:4]) and not (cls_of(world.orig[s]) == 'Hessian' and obj.method == world.orig[s][1]):
        ops.append(('restore', s))
    return ops


def enabled_ops_single(world, hist, quick):
    """one live object, long histories: construct once, then call / set / restore in any order"""
    if not hist:
        news = SINGLE_NEW[:4] if quick else SINGLE_NEW
        return [('new', 'A', ci, g) for ci, g in news]
    ops = object_ops(world, 'A')
    if cls_of(world.orig['A']) == 'Derivative':      # keep the single-object alphabet small: two plain points
        ops = [o for o in ops if not (o[0] == 'call' and o[2] in (1, 3))]
    return ops


def enabled_ops(world, hist, mode='full'):
    if mode != 'full':
        return enabled_ops_single(world, hist, mode == 'single-quick')
    ops = []
    for s in SLOTS:
        if s == 'B' and world.slots['A'] is None:
            continue      # the two slots are interchangeable: fill A first

        for ci, cfg in enumerate(POOL):
            ops.append(('new', s, ci, 'own'))
            if cfg[4] == 'default' and cfg[1] != 'complex':
                ops.append(('new', s, ci, 'max'))
            if cfg[4] == 'default' and ci in (0, 4):
                ops.append(('new', s, ci, 'min'))
            if ci == 0:
                ops.append(('new', s, ci, 'max+opts'))
                ops.append(('new', s, ci, 'min+opts'))
        for ci in range(len(POOL), len(POOL) + len(MPOOL)):
            ops.append(('new', s, ci, 'own'))
    for s in SLOTS:
        obj = world.slots[s]
        if obj is None:
            continue
        ops += object_ops(world, s)
    ops.append(('clear',))
    for ci in (1, 2, 4, 5):
        ops.append(('warm', ci))
    return ops


def apply_op(world, op, ms):
    """Apply one operation to the real objects of `world`.  Returns observation for 'call' else None."""
    import numdifftools.finite_difference as fdm
    world.load(ms)
    obs = None
    kind = op[0]
    with warnings.catch_warnings():
        warnings.simplefilter('ignore')
        if kind == 'new':
            _, s, ci, g = op
            cfg = POOL_ALL[ci]
            gen = cfg[4] if g == 'own' else g
            world.slots[s] = ref.build(cfg[0], cfg[1], cfg[2], cfg[3], gen, shared=world.shared, cls=cls_of(cfg))
            world.orig[s] = cfg
            world.gen[s] = gen
        elif kind == 'call':
            _, s, xi = op
            obs = ref.observe(world.slots[s], XS[xi])
        elif kind == 'callbuf':
            _, s, xi = op
            world.buf[:] = XS[xi]          # the caller's array is updated in place and passed again
            obs = ref.observe_array(world.slots[s], world.buf)
        elif kind == 'set':
            _, s, attr, v = op
            setattr(world.slots[s], attr, v)
        elif kind == 'setstep':
            _, s, g = op
            world.slots[s].step = None if g == 'default' else world.shared[g]
            world.gen[s] = g
        elif kind == 'restore':
            s = op[1]
            cfg = world.orig[s]
            obj = world.slots[s]
            obj.method = cfg[1]
            if cls_of(cfg) == 'Derivative':
                obj.n = cfg[2]
            if cls_of(cfg) != 'Hessian':
                obj.order = cfg[3]
        elif kind == 'zeroth':
            _, s, xi = op
            obj = world.slots[s]
            n_before = obj.n
            obj.n = 0
            try:
                obj(np.asarray(XS[xi]))
            except Exception:
                pass
            finally:
                obj.n = n_before
        elif kind == 'abort':
            _, s, xi, k = op
            obj = world.slots[s]
            orig_fun = obj.fun
            obj.fun = _Aborting(orig_fun, k)
            try:
                obj(np.asarray(XS[xi]))
            except _Abort:
                pass
            except Exception:
                pass
            finally:
                obj.fun = orig_fun
        elif kind == 'clear':
            fdm.FD_RULES.clear()
        elif kind == 'warm':
            cfg = POOL[op[1]]
            rule = fdm.LogRule(n=cfg[2], method=cfg[1], order=cfg[3])
            rule.rule(step_ratio=3.0 if cfg[4] == 'ratio3' else (2.0 if cfg[2] == 1 else 1.6))
    world.save(ms)
    return obs


class _Abort(Exception):
    pass


class _Aborting(object):
    """user function that raises at its (k+1)-th evaluation"""

    def __init__(self, fun, k):
        self.fun, self.k, self.count = fun, k, 0

    def __call__(self, x, *a, **kw):
        self.count += 1
        if self.count > self.k:
            raise _Abort()
        return self.fun(x, *a, **kw)


def effective(world, s):
    obj = world.slots[s]
    cfg = world.orig[s]
    if cls_of(cfg) == 'Derivative':
        return (cfg[0], obj.method, int(obj.n), int(obj.order), world.gen[s])
    return (cfg[0], obj.method, cfg[2], (None if cls_of(cfg) == 'Hessian' else int(obj.order)), world.gen[s], cls_of(cfg))


def build_world(hist, ms):
    w = World(ms)
    for op in hist:
        apply_op(w, _tup(op), ms)
    return w


def _tup(op):
    return tuple(op)


_MS = None


def modstate():
    global _MS
    if _MS is None:
        from mc.engine_states import ModuleState
        import numdifftools  # noqa: F401  (make sure everything is imported before the scan)
        _MS = ModuleState()
    return _MS


def hist_class(hist):
    kinds = sorted({op[0] + ('-shared' if op[0] == 'new' and op[3] != 'own' else '') for op in hist[:-1]})
    return '+'.join(kinds) or 'fresh'


def work_level(chunk, refs=None, mode='full'):
    """Expand every history of the chunk by every enabled operation."""
    acc = fw.Acc()
    ms = modstate()
    children = []
    for hist in chunk:
        hist = [tuple(o) for o in hist]
        base = build_world(hist, ms)
        for op in enabled_ops(base, hist, mode):
            w = copy.deepcopy(base)
            obs = apply_op(w, op, ms)
            h2 = hist + [op]
            acc.count('transitions')
            if op[0] in ('call', 'callbuf') and str(w.gen[op[1]]).endswith('+opts'):
                # an object built with step options next to a shared generator object: what the options mean for ITS
                # results is not C09's subject (its construction is in the history for what it does to the others)
                acc.count('calls on objects built with generator + options (not judged)')
            elif op[0] in ('call', 'callbuf'):
                cfg = effective(w, op[1])
                want = refs[ref_key(cfg, op[2])]
                same = obs == want
                acc.case(('hist', tuple(h2)), nontrivial=len(hist) >= 2, cell='hist/' + cfg[1], outcome=same)
                if not same:
                    acc.violation('C09:history:%s:%s' % (hist_class(h2), 'exception' if obs[0] == 'exc' else 'bits-differ'),
                                  dict(kind='history', history=[list(o) for o in h2]),
                                  'after history %r the call returned %s, a fresh interpreter returns %s for %r at x=%r'
                                  % (h2, _short(obs), _short(want), cfg, XS[op[2]]), rank=len(h2))
            children.append((w.digest().hex(), h2))
    new = ms.rescan_new()
    if new:
        acc.violation('C09:history:new-module-level-state', dict(kind='modstate', labels=new),
                      'module-level mutable state appeared during the exploration: %r' % new)
    acc.extra['children'] = children
    return acc


def _short(obs):
    if obs[0] != 'ok':
        return repr(obs)
    try:
        val = np.frombuffer(bytes.fromhex(obs[1][2]), dtype=obs[1][0])
        err = np.frombuffer(bytes.fromhex(obs[3][2]), dtype=obs[3][0])
        fs = np.frombuffer(bytes.fromhex(obs[4][2]), dtype=obs[4][0])
        return 'value=%r err=%r final_step=%r' % (val.tolist(), err.tolist(), fs.tolist())
    except Exception:
        return repr(obs)[:200]


def merge_children(accs):
    pass


def explore_histories(ctx, refs, depth, acc, mode='full'):
    """level-synchronised BFS; the frontier is distributed over the workers"""
    ms_digest0 = None
    seen = set()
    frontier = [[]]
    states = 1
    transitions = 0
    depth_done = 0
    for level in range(depth):
        if not frontier:
            break
        # pmap merges Acc objects; children come back through extra['children'] -> collect per chunk
        res = _pmap_collect(ctx, frontier, refs, mode)
        acc.merge(res['acc'])
        nxt = []
        for d, h in sorted(res['children'], key=lambda t: (len(t[1]), repr(t[1]))):
            transitions += 1
            if d not in seen:
                seen.add(d)
                nxt.append(h)
        states += len(nxt)
        depth_done = level + 1
        frontier = nxt
    return dict(states=states, transitions=transitions, depth=depth_done, frontier_left=len(frontier))


def _pmap_collect(ctx, frontier, refs, mode='full'):
    """like ctx.pmap but keeps every chunk's children list"""
    import multiprocessing as mp
    items = [list(h) for h in frontier]
    jobs = max(1, min(ctx.jobs, len(items)))
    chunk = max(1, min(50, len(items) // (jobs * 3) or 1))
    chunks = [items[i:i + chunk] for i in range(0, len(items), chunk)]
    tasks = [('mc.props.c09', 'work_level', c, dict(refs=refs, mode=mode)) for c in chunks]
    total = fw.Acc()
    children = []

    def absorb(r):
        if isinstance(r, tuple) and r and r[0] == '__harness_error__':
            raise fw.HarnessError('worker failed:\n' + r[1])
        children.extend(r.extra.pop('children'))
        total.merge(r)

    if jobs == 1:
        fw._worker_init()
        for t in tasks:
            absorb(fw._run_chunk(t))
    else:
        with mp.get_context('fork').Pool(jobs, initializer=fw._worker_init) as pool:
            for r in pool.imap_unordered(fw._run_chunk, tasks):
                absorb(r)
    return dict(acc=total, children=children)


# ---------------------------------------------------------------------------------------------
# schedules (E3)

PAIRS = [(0, 0), (0, 1), (1, 5), (0, 3), (0, 4), (2, 5), (4, 4)]
MPAIRS = [(6, 6), (6, 7), (6, 9), (8, 10), (0, 6)]      # thread pairs with multivariate classes (array point)
XPAIRS = [(4, 11), (11, 12), (0, 13)]      # complex-step objects of different (n, order) classes (scalar point)
TRIPLES = [(0, 0, 1), (0, 2, 4)]


def make_bodies_factory(cis, xi):
    def make():
        def body(ci):
            cfg = POOL_ALL[ci]

            def b():
                obj = ref.build(cfg[0], cfg[1], cfg[2], cfg[3], cfg[4], cls=cls_of(cfg))
                return (ref.observe_raw if noisy else ref.observe)(obj, XS[xi])
            return b
        # a pair with a warning-emitting user function runs without per-call warnings contexts (they are process-global)
        noisy = any(POOL_ALL[ci][0] == 'wexp' for ci in cis)
        return [body(ci) for ci in cis]
    return make


def work_sched(chunk, refs=None):
    import warnings
    warnings.simplefilter('ignore')      # (worker process: keep the noise of 'wexp' off stderr)
    from mc import engine_sched as es
    import numdifftools.finite_difference as fdm
    from mc.engine_states import digest
    acc = fw.Acc()
    ms = modstate()
    for cis, xi, bound, gran, shard in chunk:
        make = make_bodies_factory(cis, xi)
        # sequential reference of the final module state
        ms.restore()
        for b in make():
            b()
        seq_digest = ms.digest()
        wants = [refs[ref_key(POOL_ALL[ci], xi)] for ci in cis]
        label = '%s/%s/b%d' % ('-'.join(str(c) for c in cis), gran, bound)

        def check(run, schedule):
            acc.count('schedules')
            acc.count('points', len(run.points))
            bad = None
            for t, (res, want) in enumerate(zip(run.results, wants)):
                if res is None or res[0] != 'ok':
                    bad = 'thread %d raised %r' % (t, res)
                    kind = 'thread-exception'
                elif res[1] != want:
                    bad = 'thread %d (%r) returned %s, a fresh interpreter returns %s' % (
                        t, POOL_ALL[cis[t]], _short(res[1]), _short(want))
                    kind = 'bits-differ'
            if bad is None and ms.digest() != seq_digest:
                bad = 'final module state (rule cache) differs from the sequential execution'
                kind = 'final-cache-differs'
            acc.case(('sched', cis, xi, gran, tuple(schedule)), nontrivial=len(schedule) > 0,
                     cell='sched/' + label, outcome=bad is None)
            if bad:
                same_key = 'same-cache-key' if len(set(cis)) < len(cis) else 'different-configs'
                acc.violation('C09:schedule:%s:%s:%s' % (kind, same_key, gran),
                              dict(kind='schedule', cis=list(cis), xi=xi, gran=gran, schedule=[list(s) for s in schedule]),
                              'threads %r, schedule %r: %s' % ([POOL_ALL[c] for c in cis], schedule, bad),
                              rank=len(schedule) * 100000 + (schedule[0][0] if schedule else 0))

        try:
            st = es.explore(make, LIBDIR, bound, granularity=gran, check=check, reset=ms.restore, shard=shard)
            acc.maxi('points_max', st['points_max'])
        except es.Divergence as e:
            acc.violation('C09:schedule:nondeterministic-replay', dict(kind='schedule', cis=list(cis), xi=xi, gran=gran,
                                                                      schedule=[]), str(e))
    ms.restore()
    return acc


def work_free(chunk, refs=None):
    """auxiliary (sampling, not deciding): free-running threads, tiny switch interval"""
    import threading
    acc = fw.Acc()
    ms = modstate()
    old = sys.getswitchinterval()
    sys.setswitchinterval(1e-6)
    try:
        for rep in chunk:
            ms.restore()
            results = {}

            def body(t):
                out = []
                for k in range(6):
                    ci = (t + k + rep) % len(POOL)
                    xi = (t + 2 * k) % len(XS)
                    out.append((ci, xi, ref.observe(ref.build(*POOL[ci]), XS[xi])))
                results[t] = out
            ths = [threading.Thread(target=body, args=(t,)) for t in range(16)]
            for t in ths:
                t.start()
            for t in ths:
                t.join()
            for t, out in results.items():
                for ci, xi, obs in out:
                    ok = obs == refs[ref_key(POOL[ci], xi)]
                    acc.count('free_running_calls')
                    if not ok:
                        acc.violation('C09:free-running:bits-differ', dict(kind='free', rep=rep),
                                      'free-running 16 threads: %r at %r returned %s' % (POOL[ci], XS[xi], _short(obs)))
    finally:
        sys.setswitchinterval(old)
    ms.restore()
    return acc


# ---------------------------------------------------------------------------------------------
# re-entrancy: the user function of one library object itself uses another library object (nested
# derivatives).  Oracle without expected values: (1) every inner call made during the nested run must be bit-identical
# to the same inner call made alone from the pristine state; (2) the outer result must be bit-identical to the outer
# object run on a pure table function that returns the recorded inner values.  Scratch state of the library that
# lives at class / module level across an evaluation of the user function fails (2); results of the inner object
# that depend on the outer object being in the middle of a call fail (1).

def nested_cases():
    out = []
    for oi, ocfg in enumerate(POOL_ALL):
        if ocfg[1] == 'complex':
            continue                      # (a complex-step outer object hands complex points to the inner one)
        oc = cls_of(ocfg)
        for ii, icfg in enumerate(POOL_ALL):
            ic = cls_of(icfg)
            if oc == 'Derivative' and ic != 'Derivative':
                continue                  # scalar outer point: the inner object must accept it
            if oc != 'Derivative' and ic == 'Jacobian' and oc != 'Jacobian':
                pass
            for share in ('own', 'max'):
                if share == 'max' and (ocfg[4] != 'default' or icfg[4] != 'default'):
                    continue
                out.append((oi, ii, share))
    return out


def _nested_run(oi, ii, share, table=None):
    """returns (observation of the outer call, [(x bytes, x, observation of the inner call)])"""
    from numdifftools.step_generators import MaxStepGenerator
    ocfg, icfg = POOL_ALL[oi], POOL_ALL[ii]
    oc, ic = cls_of(ocfg), cls_of(icfg)
    shared = {'max': MaxStepGenerator(), 'min': None} if share == 'max' else None
    gen_o = 'max' if share == 'max' else ocfg[4]
    gen_i = 'max' if share == 'max' else icfg[4]
    inner = ref.build(icfg[0], icfg[1], icfg[2], icfg[3], gen_i, shared=shared, cls=ic)
    log = []

    def inner_value(x):
        xa = np.array(x, dtype=float, copy=True)
        key = (xa.shape, xa.tobytes())
        if table is not None:
            obs = table[key]
        else:
            obs = ref.observe_array(inner, xa)
            log.append((key, xa, obs))
        if obs[0] != 'ok':
            raise _Abort()
        dt, shp, hx = obs[1]
        return np.frombuffer(bytes.fromhex(hx), dtype=dt).reshape(shp)

    if oc == 'Derivative':
        def g(x):
            return inner_value(x)
    elif oc == 'Jacobian':
        def g(x):
            return np.atleast_1d(inner_value(x)).ravel() * 1.0
    else:
        def g(x):
            return float(np.sum(inner_value(x)))
    ref.FUNS['__nested__'] = g
    try:
        outer = ref.build('__nested__', ocfg[1], ocfg[2], ocfg[3], gen_o, shared=shared, cls=oc)
        x = XS[0] if oc == 'Derivative' else XS[2]
        obs = ref.observe(outer, x)
    finally:
        ref.FUNS.pop('__nested__', None)
    return obs, log


def work_nested(chunk):
    acc = fw.Acc()
    for oi, ii, share in chunk:
        case = dict(kind='nested', outer=oi, inner=ii, share=share)
        desc = 'outer %r, inner %r%s' % (POOL_ALL[oi], POOL_ALL[ii], ', one shared MaxStepGenerator' if share == 'max' else '')
        fw.fresh_library_state()
        obs, log = _nested_run(oi, ii, share)
        table = {}
        bad_inner = None
        for key, xa, o in log:
            if key in table:
                if table[key] != o and bad_inner is None:
                    bad_inner = 'the inner object returned two different results for the same point %r during one outer call' % (xa.tolist(),)
                continue
            table[key] = o
        # (1) every distinct inner call alone, from the pristine state
        for key, xa, o in log:
            if bad_inner or table.get(key) is not o:
                continue
            fw.fresh_library_state()
            icfg = POOL_ALL[ii]
            alone = ref.observe_array(ref.build(icfg[0], icfg[1], icfg[2], icfg[3], 'max' if share == 'max' else icfg[4],
                                                cls=cls_of(icfg)), xa.copy())
            if alone != o:
                bad_inner = ('inner call at %r inside the outer call: %s; the same call alone: %s'
                             % (xa.tolist(), _short(o), _short(alone)))
        # (2) the outer object on the recorded table
        fw.fresh_library_state()
        try:
            obs_t, _ = _nested_run(oi, ii, share, table=table)
        except KeyError:
            obs_t = ['exc', 'outer object evaluated its function at a point it did not evaluate in the nested run']
        acc.case(('nested', oi, ii, share), nontrivial=len(log) >= 2, cell=['nested/%s-in-%s' % (cls_of(POOL_ALL[ii]), cls_of(POOL_ALL[oi])),
                                                                          'nested/share=' + share],
                 outcome=(bad_inner is None, obs_t == obs), n_eval=len(log) + 2)
        acc.count('nested_inner_calls', len(log))
        if bad_inner:
            acc.violation('C09:nested:inner-result-depends-on-outer-call', case, '%s: %s' % (desc, bad_inner), rank=oi * 20 + ii)
        if obs_t != obs:
            acc.violation('C09:nested:outer-result-depends-on-inner-use', case,
                          '%s: nested result %s, the same outer call on the recorded table of inner values %s'
                          % (desc, _short(obs), _short(obs_t)), rank=oi * 20 + ii)
    fw.fresh_library_state()
    return acc


def run(ctx):
    q = ctx.quick
    refs = collect_refs(ctx)
    acc = fw.Acc()
    acc.count('reference_interpreters', len(refs))
    depth = 3 if q else 4
    hs = explore_histories(ctx, refs, depth, acc)
    # long single-object histories (construct, then any order of call / set n|order|method / restore)
    sdepth = 5 if q else 7
    hs1 = explore_histories(ctx, refs, sdepth, acc, mode='single-quick' if q else 'single')
    hs = dict(states=hs['states'] + hs1['states'], transitions=hs['transitions'] + hs1['transitions'], depth=hs['depth'],
              single_object_depth=hs1['depth'])
    # schedules
    jobs = []
    shards = 8
    for cis in PAIRS:
        for k in range(shards):
            jobs.append((cis, 0, 1, 'line', (k, shards)))
    for cis in MPAIRS:
        for k in range(shards):
            jobs.append((cis, 2, 1, 'line', (k, shards)))
    for cis in XPAIRS:
        for k in range(shards):
            jobs.append((cis, 0, 1, 'line', (k, shards)))
    if not q:
        for cis in PAIRS[:4]:
            for k in range(64):
                jobs.append((cis, 0, 2, 'line', (k, 64)))
        for cis in PAIRS[:3]:
            for k in range(32):
                jobs.append((cis, 0, 1, 'instr', (k, 32)))
        for cis in TRIPLES:
            for k in range(32):
                jobs.append((cis, 2, 1, 'line', (k, 32)))
    sacc = ctx.pmap(work_sched, jobs, chunk=1, refs=refs)
    acc.merge(sacc)
    acc.merge(ctx.pmap(work_free, list(range(4 if q else 16)), chunk=1, refs=refs))
    acc.merge(ctx.pmap(work_nested, nested_cases(), chunk=2))
    nsched = int(acc.counters.get('schedules', 0))
    acc.sample(dict(kind='history', ops=[['new', 'A', 0, 'max'], ['call', 'A', 1], ['set', 'A', 'n', 2], ['restore', 'A'],
                                         ['call', 'A', 0]]))
    acc.sample(dict(kind='schedule', threads=[POOL[0], POOL[0]], preemptions=[[137, 1]], granularity='line'))
    acc.sample(dict(kind='reference', cfg=POOL[4], x=XS[2], observation=_short(refs[ref_key(POOL[4], 2)])))
    cov = dict(states=hs['states'], transitions=hs['transitions'], traces_validated_against_impl=hs['transitions'],
               history_depth_completed=hs['depth'], single_object_history_depth_completed=hs['single_object_depth'],
               schedules=nsched, schedule_points=int(acc.counters.get('points', 0)),
               preemption_bound_completed=dict(line=1 if q else 2, instruction=0 if q else 1, three_threads=0 if q else 1))
    req = ['sched/%s/line/b1' % '-'.join(str(c) for c in cis) for cis in PAIRS + MPAIRS + XPAIRS] + ['hist/central', 'hist/forward',
                                                                                   'hist/complex']
    req += ['nested/Derivative-in-Derivative', 'nested/Hessdiag-in-Hessdiag', 'nested/Gradient-in-Hessian', 'nested/share=max']
    rule = ('references: one fresh interpreter per (configuration, point) (%d subprocesses). E2: BFS over histories of '
            '{new (own / shared Max / shared Min generator), call at 3 points, set n|order|method, restore, clear cache, '
            'warm cache} on 2 object slots and a pool of 6 configurations, merged on an exact digest of all library '
            'objects and module-level containers, complete to depth %d (two objects, full alphabet) and to depth %d for one '
            'object with {call, in-place-updated array call, set, restore}; every call compared bit for bit with the '
            'reference. E3: every interleaving of the thread tuples %r with <= %d pre-emption(s) at every executed '
            'library line%s, observations and final rule cache compared with the references; + a free-running '
            '16-thread pass (auxiliary).  Re-entrancy: every compatible (outer, inner) pair of the 11 configurations with the '
            'inner object used inside the outer object\'s function (own generators / one shared MaxStepGenerator): inner calls '
            'bit-identical to the same calls alone, outer result bit-identical to the outer object run on the recorded table.  Non-trivial = history of >= 2 earlier operations / schedule with >= 1 '
            'pre-emption.' % (len(refs), hs['depth'], hs['single_object_depth'], PAIRS if q else PAIRS + TRIPLES, 1 if q else 2,
                              '' if q else ' (bound 1 at every bytecode instruction; 3 threads bound 1)'))
    return fw.finish(ctx, acc, LEVEL, rule, exhaustive=True, required_cells=req, coverage_extra=cov,
                     assumptions=['cooperative scheduler: true parallelism inside numpy C code is not modelled',
                                  'at most 3 threads and 2 pre-emptions', 'the transition function is the implementation'])


def collect_refs(ctx):
    refs = {}
    import multiprocessing as mp
    jobs = all_ref_jobs()
    chunks = [jobs[i:i + 4] for i in range(0, len(jobs), 4)]
    tasks = [('mc.props.c09', 'work_refs', c, {}) for c in chunks]
    with mp.get_context('fork').Pool(ctx.jobs, initializer=fw._worker_init) as pool:
        for r in pool.imap_unordered(fw._run_chunk, tasks):
            if isinstance(r, tuple):
                raise fw.HarnessError(r[1])
            refs.update(r.extra['refs'])
    return refs


def replay(case):
    kind = case['kind']
    refs = {}
    if kind == 'history':
        ms = modstate()
        hist = [tuple(o) for o in case['history']]
        outs = []
        for _ in range(2):
            w = World(ms)
            obs = None
            for op in hist:
                obs = apply_op(w, op, ms)
            outs.append(obs)
            cfg = effective(w, hist[-1][1])
        c = dict(fname=cfg[0], method=cfg[1], n=cfg[2], order=cfg[3], gen=cfg[4], x=XS[hist[-1][2]], cls=cls_of(cfg))
        r = subprocess.run([sys.executable, ref.__file__, json.dumps(c)], capture_output=True, text=True)
        want = json.loads(r.stdout.strip().splitlines()[-1])
        ms.restore()
        if outs[0] != outs[1]:
            return False, 'replay is not deterministic: %s vs %s' % (_short(outs[0]), _short(outs[1]))
        return outs[0] == want, 'history %r -> %s ; fresh interpreter %s' % (hist, _short(outs[0]), _short(want))
    if kind == 'schedule':
        from mc import engine_sched as es
        ms = modstate()
        cis, xi = tuple(case['cis']), case['xi']
        sched = [tuple(s) for s in case['schedule']]
        res = []
        for _ in range(2):
            ms.restore()
            run = es.Run(make_bodies_factory(cis, xi)(), sched, LIBDIR, case['gran']).execute()
            res.append(run.results)
        wants = []
        for ci in cis:
            cfg = POOL_ALL[ci]
            c = dict(fname=cfg[0], method=cfg[1], n=cfg[2], order=cfg[3], gen=cfg[4], x=XS[xi], cls=cls_of(cfg))
            r = subprocess.run([sys.executable, ref.__file__, json.dumps(c)], capture_output=True, text=True)
            wants.append(json.loads(r.stdout.strip().splitlines()[-1]))
        ms.restore()
        if res[0] != res[1]:
            return False, 'the same schedule gave two different observations (nondeterministic replay)'
        ok = all(r[0] == 'ok' and r[1] == w for r, w in zip(res[0], wants))
        return ok, 'schedule %r on %r -> %s' % (sched, [POOL_ALL[c] for c in cis],
                                                [(_short(r[1]) if r[0] == 'ok' else r) for r in res[0]])
    if kind == 'nested':
        a = work_nested([(case['outer'], case['inner'], case['share'])])
        bad = [r['detail'] for k, (n, recs) in a.viol.items() for r in recs]
        return not bad, 'nested use %r -> %s' % (case, bad or 'ok')
    return True, 'nothing to replay for %r' % kind
