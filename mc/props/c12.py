"""C12 - Bicomplex numbers implement the holomorphic extension of every function (DESIGN 5/C12).

E1: every function / operator of the class (depth-2 compositions in thorough) x real base points x
perturbation patterns x scalar and array arguments.  Oracle: idempotent decomposition in 120-digit
arithmetic, compared component-wise with the absolute Taylor majorant of each component.
"""
import itertools
import math

import mpmath as mp
from fractions import Fraction

import numpy as np

from mc import framework as fw
from mc.oracle import jets, scale as sc

LEVEL = 'exploration'
EPS = np.finfo(float).eps
C_ALLOW = 1e3
X = ('x',)
FUNCS = ['sin', 'cos', 'tan', 'cot', 'sec', 'csc', 'sinh', 'cosh', 'tanh', 'coth', 'sech', 'csch',
         'exp', 'exp2', 'expm1', 'log', 'log2', 'log10', 'log1p', 'sqrt',
         'arcsin', 'arccos', 'arctan', 'arcsinh', 'arccosh', 'arctanh']
BASES = [0.3, 0.7, -0.4, 1.3, 2.5, -1.2, 4.0, -20.0, 25.0, -1e4, -0.96875, -0.99999904632568359375,
         0.0, -0.0]      # exactly zero (both signs): sign-based branch selections must not vanish there
SIGNS = list(itertools.product((1, -1), repeat=3))
SIZES = [1e-8, 1e-5, 1e-3, 1e-1]
HS = [1e-8, 1e-12, 1.7e-15]


def programs(tier):
    progs = [('u', f, X) for f in FUNCS]
    # ring operations and powers, including reflected forms
    S, E = ('u', 'sin', X), ('u', 'exp', X)
    progs += [
        ('b', '+', S, E), ('b', '-', S, E), ('b', '*', S, E), ('b', '/', S, E),
        ('b', '+', ('c', 2.0), X), ('b', '-', ('c', 2.0), X), ('b', '*', ('c', 2.0), X), ('b', '/', ('c', 2.0), X),
        ('b', '+', X, ('c', 2.0)), ('b', '-', X, ('c', 2.0)), ('b', '*', X, ('c', 2.0)), ('b', '/', X, ('c', 2.0)),
        ('b', '/', X, ('b', '+', ('c', 1.5), ('p', X, 2))),
    ]
    # the two binary functions the class defines besides the operators
    progs += [('b', 'L', S, E), ('b', 'L', X, ('c', 2.0)), ('b', 'L2', X, ('u', 'cos', X)), ('b', 'L2', E, ('c', -1.5))]
    progs += [('p', X, r) for r in (2, 3, 5, -1, -2, -3, 0, 1, 2.0, 0.5, 1.5, -0.5, 2.5)]
    progs += [('pw', ('c', 2.0), X), ('pw', E, X), ('pw', ('b', '+', ('c', 2.0), S), ('u', 'cos', X)),
              ('pw', ('b', '+', ('c', 3.0), X), X)]
    if tier == 'thorough':
        progs += [('u', f, ('u', g, X)) for f in FUNCS for g in FUNCS]
        progs += [('p', ('u', f, X), r) for f in FUNCS for r in (2, 3, -1, -2, 0.5)]
        progs += [('b', op, ('u', f, X), ('u', g, X)) for op in '*/' for f in FUNCS[:13] for g in FUNCS[13:]]
    return progs


def perturbations(x, tier):
    m = max(abs(x), 1.0)
    out = []
    for s in SIZES:
        for sg in SIGNS:
            out.append((s * m * sg[0], 0.7 * s * m * sg[1], 0.4 * s * m * sg[2]))
    for h in HS:
        out.append((h, 0.0, 0.0))
        out.append((h, h, 0.0))
    return out


def majorant(acoef, pert, K):
    """M_c = sum_k |a_k| [(|h1| I + |h2| J + |h12| IJ)^k]_c, c = real, imag1, imag2, imag12."""
    h1, h2, h12 = (abs(v) for v in pert)
    w = (0.0, h1, h2, h12)
    pw = (1.0, 0.0, 0.0, 0.0)
    M = [0.0, 0.0, 0.0, 0.0]
    for k in range(K):
        a = acoef[k]
        for c in range(4):
            M[c] += a * pw[c]
        p0, p1, p2, p3 = pw
        w0, w1, w2, w3 = w
        pw = (p0 * w0 + p1 * w1 + p2 * w2 + p3 * w3,
              p0 * w1 + p1 * w0 + p2 * w3 + p3 * w2,
              p0 * w2 + p2 * w0 + p1 * w3 + p3 * w1,
              p0 * w3 + p3 * w0 + p1 * w2 + p2 * w1)
    return M


def reference(prog, x, pert):
    """Exact holomorphic extension by the idempotent decomposition, 120 digits."""
    h1, h2, h12 = pert
    with mp.workdps(120):
        z1 = mp.mpc(x, h1)
        z2 = mp.mpc(h2, h12)
        a = z1 - mp.mpc(0, 1) * z2
        b = z1 + mp.mpc(0, 1) * z2
        fa, fb = jets.mp_eval(prog, a), jets.mp_eval(prog, b)
        r1 = (fa + fb) / 2
        r2 = mp.mpc(0, 1) * (fa - fb) / 2
        return [float(r1.real), float(r1.imag), float(r2.real), float(r2.imag)]


_AN = {}
K_AN = 30


def analysis(prog, x):
    """(coefficient majorants s_k = S_k/k!, analyticity radius) from the scale oracle, or (None, 0)."""
    key = (prog, x)
    if key not in _AN:
        try:
            an = sc.analyse(prog, x, K=K_AN, ladder_top=8.0)
            coef = []
            ok = an.ok
            for k in range(K_AN):
                S, rho, res = an.scale(k)
                ok = ok and res
                coef.append(S / math.factorial(k))
            _AN[key] = (coef, an.R_an, an.noise) if ok and all(math.isfinite(v) for v in coef) else (None, 0.0, 0.0)
        except (jets.DomainError, ZeroDivisionError, OverflowError, ValueError):
            _AN[key] = (None, 0.0, 0.0)
    return _AN[key]


def in_scope(prog, x, pert):
    coef, R, _ = analysis(prog, x)
    return coef is not None and R >= 4 * max(abs(v) for v in pert)


def lib_eval(prog, z):
    import warnings
    with warnings.catch_warnings():
        warnings.simplefilter('ignore')
        with np.errstate(all='ignore'):
            return jets.np_eval(prog, z)


def check_one(prog, x, pert):
    """returns (status, worst_ratio, detail)   status: ok | skip | bad-<component> | raised-<Type>"""
    from numdifftools.multicomplex import Bicomplex
    if not in_scope(prog, x, pert):
        return 'skip', 0.0, ''
    ac = analysis(prog, x)[0]
    h1, h2, h12 = pert
    try:
        out = lib_eval(prog, Bicomplex(complex(x, h1), complex(h2, h12)))
        got = [float(np.real(out.z1)), float(np.imag(out.z1)), float(np.real(out.z2)), float(np.imag(out.z2))]
    except Exception as e:
        return 'raised-' + type(e).__name__, float('inf'), '%s: %s' % (type(e).__name__, e)
    ref = reference(prog, x, pert)
    M = majorant(ac, pert, len(ac))
    worst, bad = 0.0, None
    names = ['real', 'imag1', 'imag2', 'imag12']
    for c in range(4):
        allow = C_ALLOW * EPS * M[c]
        err = abs(got[c] - ref[c])
        if not (err <= allow):
            if not math.isfinite(err) or allow == 0 or err / allow > worst:
                bad = names[c]
            worst = max(worst, err / allow if allow > 0 else float('inf'))
        elif allow > 0:
            worst = max(worst, err / allow)
    if bad:
        return 'bad-' + bad, worst, ('Bicomplex result %r, holomorphic extension %r, component majorants %r'
                                     % (got, ref, M))
    return 'ok', worst, ''


def reduces_to_complex(prog, x, h):
    """z2 = 0: the z1 part must be the numpy complex function value (1e2 eps relative)."""
    from numdifftools.multicomplex import Bicomplex
    try:
        out = lib_eval(prog, Bicomplex(complex(x, h), 0.0))
        with mp.workdps(40):
            want = complex(jets.mp_eval(prog, mp.mpc(x, h)))
    except Exception as e:
        return 'z2=0 evaluation raised %s: %s' % (type(e).__name__, e)
    got = complex(out.z1)
    if not np.isfinite(want):
        return None
    size = max(abs(want), analysis(prog, x)[2])     # evaluation-noise magnitude of the program (oracle side)
    if abs(got - want) > 1e2 * EPS * size or abs(complex(out.z2)) > 1e2 * EPS * size:
        return 'z2=0: Bicomplex gives %r (z2 part %r), numpy complex function %r' % (got, complex(out.z2), want)
    return None


def prog_key(prog):
    if prog[0] == 'u' and prog[2] == X:
        return prog[1]
    if prog[0] == 'u':
        return 'compose'
    if prog[0] == 'p':
        r = prog[2]
        base = 'x' if prog[1] == X else 'f'
        return 'pow-%s-%s' % (base, 'int' if float(r) == int(r) else 'real')
    if prog[0] == 'pw':
        return 'pow-bicomplex-exponent'
    if prog[0] == 'b':
        return 'op' + prog[1]
    return prog[0]


# ---------------------------------------------------------------------------------------------
# ring operations on two INDEPENDENT bicomplex operands (a single-variable composition only ever combines values that
# stem from the same z): exact rational arithmetic on dyadic components

class _CF(object):
    """complex number with Fraction parts"""
    __slots__ = ('re', 'im')

    def __init__(self, re, im=0):
        self.re, self.im = Fraction(re), Fraction(im)

    def __add__(self, o):
        return _CF(self.re + o.re, self.im + o.im)

    def __sub__(self, o):
        return _CF(self.re - o.re, self.im - o.im)

    def __mul__(self, o):
        return _CF(self.re * o.re - self.im * o.im, self.re * o.im + self.im * o.re)

    def __truediv__(self, o):
        n = o.re * o.re + o.im * o.im
        return _CF((self.re * o.re + self.im * o.im) / n, (self.im * o.re - self.re * o.im) / n)

    def __neg__(self):
        return _CF(-self.re, -self.im)


def _bc_exact(op, z, w):
    """z, w: pairs (z1, z2) of _CF; returns the exact pair"""
    (z1, z2), (w1, w2) = z, w
    if op == '+':
        return z1 + w1, z2 + w2
    if op == '-':
        return z1 - w1, z2 - w2
    if op == '*':
        return z1 * w1 - z2 * w2, z1 * w2 + z2 * w1
    den = w1 * w1 + w2 * w2
    n1, n2 = z1 * w1 + z2 * w2, z2 * w1 - z1 * w2
    return n1 / den, n2 / den


OPERANDS = {'complex-only': ((1.5, 0.125), (0.0, 0.0)), 'j-part-only': ((0.75, 0.0), (0.0625, 0.0)),
            'generic': ((2.0, 0.25), (0.5, -0.125)), 'real': ((-1.25, 0.0), (0.0, 0.0)),
            'generic2': ((0.5, 0.5), (0.0, 0.25)), 'tiny-parts': ((3.0, 2.0 ** -20), (2.0 ** -20, 2.0 ** -40))}


def work_binary(chunk):
    from numdifftools.multicomplex import Bicomplex
    acc = fw.Acc()
    names = sorted(OPERANDS)
    for op in chunk:
        for na in names:
            for nb in names:
                (a1, a2), (b1, b2) = OPERANDS[na], OPERANDS[nb]
                exact = _bc_exact(op, (_CF(*a1), _CF(*a2)), (_CF(*b1), _CF(*b2)))
                want = [float(exact[0].re), float(exact[0].im), float(exact[1].re), float(exact[1].im)]
                allow = 64 * EPS * (1.0 + max(abs(v) for v in want))
                for form in ('scalar', 'array'):
                    prob = None
                    try:
                        if form == 'scalar':
                            za, zb = Bicomplex(complex(*a1), complex(*a2)), Bicomplex(complex(*b1), complex(*b2))
                        else:
                            za = Bicomplex(np.array([complex(*a1)] * 2), np.array([complex(*a2)] * 2))
                            zb = Bicomplex(np.array([complex(*b1)] * 2), np.array([complex(*b2)] * 2))
                        out = {'+': lambda: za + zb, '-': lambda: za - zb, '*': lambda: za * zb, '/': lambda: za / zb}[op]()
                        z1, z2 = np.ravel(np.asarray(out.z1, dtype=complex)), np.ravel(np.asarray(out.z2, dtype=complex))
                        got = [float(z1[-1].real), float(z1[-1].imag), float(z2[-1].real), float(z2[-1].imag)]
                        if not all(abs(g - w_) <= allow for g, w_ in zip(got, want)):
                            prob = 'got (re, i, j, ij) = %r, exact %r' % (got, want)
                    except Exception as e:      # noqa: BLE001
                        prob = 'raised %s: %s' % (type(e).__name__, e)
                    acc.case(('binary', op, na, nb, form), nontrivial=True, cell='binary/op' + op, outcome=prob is None)
                    if prob:
                        acc.violation('C12:op%s:two-independent-operands' % op, dict(kind='binary', op=op, a=na, b=nb, form=form),
                                      '(%s) %s (%s), %s operands: %s' % (na, op, nb, form, prob), 1)
                    if prob is None and form == 'scalar':
                        # the augmented-assignment spelling (a op= b; with the same object on both sides when the operands
                        # are equal): whatever the class does for it, the result is the ring operation
                        try:
                            zc = Bicomplex(complex(*a1), complex(*a2))
                            zd = zc if na == nb else Bicomplex(complex(*b1), complex(*b2))
                            if op == '+':
                                zc += zd
                            elif op == '-':
                                zc -= zd
                            elif op == '*':
                                zc *= zd
                            else:
                                zc /= zd
                            got2 = [float(np.real(zc.z1)), float(np.imag(zc.z1)), float(np.real(zc.z2)), float(np.imag(zc.z2))]
                            if not all(abs(g - w_) <= allow for g, w_ in zip(got2, want)):
                                prob = 'a %s= %s gives (re, i, j, ij) = %r, exact %r' % (op, 'a' if na == nb else 'b', got2, want)
                        except Exception as e:      # noqa: BLE001
                            prob = 'a %s= b raised %s: %s' % (op, type(e).__name__, e)
                        acc.case(('binary-inplace', op, na, nb), nontrivial=True, cell='binary/inplace', outcome=prob is None)
                        if prob:
                            acc.violation('C12:op%s:augmented-assignment' % op, dict(kind='binary', op=op, a=na, b=nb, form='inplace'),
                                          '(%s) %s= (%s): %s' % (na, op, nb, prob), 1)
    return acc


def work(chunk, tier='quick'):
    acc = fw.Acc()
    for prog in chunk:
        show = jets.show(prog)
        pk = prog_key(prog)
        for x in BASES:
            if analysis(prog, x)[0] is None:
                acc.count('skipped-outside-domain-or-unresolved')
                continue
            perts = perturbations(x, tier)
            for pert in perts:
                status, worst, detail = check_one(prog, x, pert)
                if status == 'skip':
                    acc.count('skipped-perturbation-beyond-quarter-of-analyticity-radius')
                    continue
                small = max(abs(v) for v in pert) <= 1e-7
                acc.case((prog, x, pert), nontrivial=True,
                         cell=['fn/' + pk, 'step/' + ('tiny' if small else 'finite')],
                         outcome=(status, round(math.log10(min(worst, 1e300) + 1e-300))))
                if status == 'ok':
                    acc.maxi('worst_ratio_in_allowance_units', worst)
                    continue
                shape = 'z2=0' if pert[1] == 0 and pert[2] == 0 else ('h-h-0' if pert[2] == 0 else 'general')
                acc.violation('C12:%s:%s:%s' % (pk, status, 'negative-base' if x < 0 else ('zero-base' if x == 0 else 'positive-base')),
                              dict(prog=prog, x=x, pert=list(pert), f=show),
                              '%s at x=%r, perturbation %r (%s): %s' % (show, x, pert, shape, detail),
                              rank=jets.depth(prog) * 1000 + int(-math.log10(max(abs(v) for v in pert) + 1e-300)))
            for h in (0.0, 1e-3, 1e-12):
                if not in_scope(prog, x, (h, 0.0, 0.0)):
                    continue
                txt = reduces_to_complex(prog, x, h)
                acc.case((prog, x, 'z2=0', h), nontrivial=True, cell='reduce/' + pk, outcome=txt is None)
                if txt:
                    acc.violation('C12:%s:reduction-to-complex' % pk, dict(prog=prog, x=x, pert=[h, 0.0, 0.0], f=show,
                                                                         kind='reduce'), '%s at %r: %s' % (show, x, txt))
        # array argument: (2, 3) array of base points, elementwise agreement with the scalar results
        txt = array_check(prog)
        if txt is not None:
            acc.case((prog, 'array'), nontrivial=True, cell='array/' + pk, outcome=txt == '')
            if txt:
                acc.violation('C12:%s:array-elementwise' % pk, dict(prog=prog, kind='array', f=show), txt)
    return acc


EXPONENT_FORMS = ['array0d', 'complex', 'float64', 'fraction', 'bicomplex']
EXPONENTS = (2, 3, 5, -1, -2, -3, 0.5, 1.5, 2.5)


def work_exponent_forms(chunk):
    """x ** r with the constant exponent handed over as a 0-d array, a complex number with zero imaginary part, a
    numpy scalar, a Fraction, a Bicomplex with zero perturbation parts.  Positive bases: the same holomorphic extension
    within the same allowance.  Negative bases, integer-valued r only (an integer power whatever the type of the
    exponent; the library evaluates these forms through exp(r log z), which carries an absolute rounding error of order
    eps |f| in every component): every component within 1e3 eps |f|, i.e. value and sign of the power itself."""
    from numdifftools.multicomplex import Bicomplex
    acc = fw.Acc()
    for form, r in chunk:
        prog = ('p', X, r)
        jets.EXP_FORM[0] = form
        try:
            for x in BASES:
                if x == 0 or analysis(prog, x)[0] is None:
                    continue
                if x < 0 and (float(r) != int(r) or form == 'bicomplex'):
                    continue
                for pert in perturbations(x, 'quick')[::3]:
                    if x > 0:
                        status, worst, detail = check_one(prog, x, pert)
                        if status == 'skip':
                            continue
                    else:
                        if not in_scope(prog, x, pert):
                            continue
                        try:
                            out = lib_eval(prog, Bicomplex(complex(x, pert[0]), complex(pert[1], pert[2])))
                            got = [float(np.real(out.z1)), float(np.imag(out.z1)), float(np.real(out.z2)), float(np.imag(out.z2))]
                            ref = reference(prog, x, pert)
                            size = abs(ref[0])
                            bad = [c for c in range(4) if not abs(got[c] - ref[c]) <= 1e3 * EPS * size]
                            status = 'ok' if not bad else 'bad-' + ['real', 'imag1', 'imag2', 'imag12'][bad[0]]
                            detail = 'Bicomplex result %r, holomorphic extension %r (allowed: 1e3 eps |f| per component)' % (got, ref)
                        except Exception as e:      # noqa: BLE001
                            status, detail = 'raised-' + type(e).__name__, '%s: %s' % (type(e).__name__, e)
                    acc.case(('expform', form, r, x, pert), nontrivial=True,
                             cell=['exponent-form/' + form, 'exponent-form/%s-base' % ('positive' if x > 0 else 'negative')], outcome=status)
                    if status != 'ok':
                        acc.violation('C12:pow-exponent-as-%s:%s:%s' % (form, status, 'negative-base' if x < 0 else 'positive-base'),
                                      dict(kind='expform', form=form, r=r, x=x, pert=list(pert)),
                                      'x ** %r with the exponent given as %s, x=%r, perturbation %r: %s' % (r, form, x, pert, detail),
                                      rank=int(abs(r) * 10))
        finally:
            jets.EXP_FORM[0] = None
    return acc


def array_check(prog):
    """array arguments: shape kept and every regular element within the same component-wise allowance, for a
    (2,3) array of base points and for arrays that ALSO contain the non-invertible element 0 (whose own
    result is not judged): a regular element must not suffer from a singular neighbour."""
    from numdifftools.multicomplex import Bicomplex
    names = ['real', 'imag1', 'imag2', 'imag12']
    tested = False
    for pert in ((1e-3, 1e-3, 0.4e-3), (1e-8, 1e-8, 0.0)):
        xs = [x for x in BASES[:7] if in_scope(prog, x, pert)]
        if len(xs) < 2:
            continue
        for with_zero in (False, True):
            vals = (xs * 6)[:6]
            judged = [True] * 6
            if with_zero:
                vals = [0.0] + vals[:5]
                judged[0] = False
            x = np.array(vals).reshape(2, 3)
            try:
                out = lib_eval(prog, Bicomplex(x + 1j * pert[0], pert[1] * np.ones((2, 3)) + 1j * pert[2]))
            except Exception as e:
                if with_zero:
                    continue      # the program is not defined at 0: nothing is claimed for that array
                return 'array call raised %s: %s' % (type(e).__name__, e)
            tested = True
            if np.shape(out.z1) != (2, 3) or np.shape(out.z2) != (2, 3):
                return 'array argument of shape (2,3) gives result of shape %r' % (np.shape(out.z1),)
            for flat, idx in enumerate(np.ndindex(2, 3)):
                if not judged[flat]:
                    continue
                xi = float(x[idx])
                got = [float(out.z1[idx].real), float(out.z1[idx].imag), float(out.z2[idx].real), float(out.z2[idx].imag)]
                ref = reference(prog, xi, pert)
                M = majorant(analysis(prog, xi)[0], pert, K_AN)
                for c in range(4):
                    if not abs(got[c] - ref[c]) <= C_ALLOW * EPS * M[c]:
                        return ('element %r (x=%r) of the array call%s, perturbation %r: %s component %r, holomorphic '
                                'extension %r' % (idx, xi, ' that also holds the singular element 0' if with_zero else '',
                                                  pert, names[c], got[c], ref[c]))
    return '' if tested else None


def run(ctx):
    progs = programs(ctx.tier)
    acc = ctx.pmap(work, progs, chunk=1 if ctx.quick else 4, tier=ctx.tier)
    acc.merge(ctx.pmap(work_binary, list('+-*/'), chunk=1))
    acc.merge(ctx.pmap(work_exponent_forms, [(f, r) for f in EXPONENT_FORMS for r in EXPONENTS], chunk=2))
    for p in progs[:3] + progs[30:32]:
        acc.sample(dict(f=jets.show(p), base_points=BASES, perturbation_example=perturbations(0.3, ctx.tier)[:2]))
    req = ['binary/op' + o for o in '+-*/'] + ['fn/' + f for f in FUNCS] + ['fn/op' + o for o in '+-*/'] + [
        'fn/pow-x-int', 'fn/pow-x-real', 'fn/pow-bicomplex-exponent', 'step/tiny', 'step/finite'] + \
        ['exponent-form/' + f for f in EXPONENT_FORMS] + ['exponent-form/positive-base', 'exponent-form/negative-base']
    rule = ('%d programs (all 26 functions of the class, ring operations, reflected forms, integer/real/bicomplex '
            'powers%s) x base points %r (inside the real domain with margin, decided by the jet majorant) x 32 '
            'sign/size perturbation patterns + the multicomplex step shapes (h,0,0), (h,h,0) for h in %r; '
            'component-wise |got - ref| <= 1e3*eps*M_c with M_c the absolute Taylor majorant of the component; '
            'z2=0 reduction to the numpy complex function; (2,3)-array arguments elementwise bit-identical to '
            'scalar calls.  Every in-domain case is non-trivial (the allowance is at rounding level of the '
            'component).' % (len(progs), ', depth-2 compositions' if not ctx.quick else '', BASES, HS))
    return fw.finish(ctx, acc, LEVEL, rule, exhaustive=True, required_cells=req,
                     assumptions=['reference = idempotent decomposition evaluated with 120 digits on exactly '
                                  'converted inputs', 'C = 1e3 allowance constant (DESIGN 5/C12)'])


def replay(case):
    if case.get('kind') == 'binary':
        a = work_binary([case['op']])
        bad = [r['detail'] for k, (n, recs) in a.viol.items() for r in recs if r['case'].get('a') == case['a'] and r['case'].get('b') == case['b']]
        return not bad, '%r -> %s' % (case, bad or 'exact')
    if case.get('kind') == 'expform':
        a = work_exponent_forms([(case['form'], case['r'])])
        bad = [r['detail'] for k, (n, recs) in a.viol.items() for r in recs if r['case'].get('x') == case['x']]
        return not bad, '%r -> %s' % (case, bad[:1] or 'ok')
    prog = _tuplify(case['prog'])
    if case.get('kind') == 'array':
        txt = array_check(prog)
        return not txt, 'array check %s: %r' % (jets.show(prog), txt)
    if case.get('kind') == 'reduce':
        txt = reduces_to_complex(prog, case['x'], case['pert'][0])
        return txt is None, '%s: %r' % (jets.show(prog), txt)
    status, worst, detail = check_one(prog, case['x'], tuple(case['pert']))
    return status in ('ok', 'skip'), '%s at %r pert %r -> %s (%.3g allowance units) %s' % (
        jets.show(prog), case['x'], case['pert'], status, worst, detail)


def _tuplify(o):
    if isinstance(o, list):
        return tuple(_tuplify(v) for v in o)
    return o
