"""C14 - streaming epsilon algorithms: EpsAlg matches the Shanks table; Dea is total (DESIGN 5/C14).

Engine E2 (explicit-state search on the real objects): the state is the real Dea / EpsAlg object
(snapshot by deepcopy), a transition feeds one more term chosen from a small alphabet; every
reachable state within the bounds is visited once (exact digest of the object's fields + the
alphabet cursor), every transition is checked.
"""
import copy
import hashlib
import itertools
import math
from fractions import Fraction

import numpy as np

from mc import framework as fw
from mc.oracle import epsilon as eo

LEVEL = 'model_checking'
EPS = np.finfo(float).eps
ALPHABET = ['rep', 'ulp', 'geo', 'geo2', 'lin', 'alt', 'zero', 'jump']


def next_term(sym, k, last):
    """k = index of the term to be produced (0-based), last = previous term (None for k = 0)."""
    if sym == 'rep':
        return 1.0 if last is None else last
    if sym == 'ulp':
        return 1.0 if last is None else last * (1.0 + EPS)
    if sym == 'geo':
        return 1.0 + 0.5 ** k
    if sym == 'geo2':
        return 1.0 + 0.5 ** k + 0.7 * (-0.3) ** k
    if sym == 'lin':
        return 1.0 + 0.1 * k
    if sym == 'alt':
        return (-1.0) ** k * (1.0 + 1.0 / (k + 1))
    if sym == 'zero':
        return 0.0
    if sym == 'jump':
        return 1e6
    raise ValueError(sym)


def digest(obj, k, last):
    h = hashlib.blake2b(digest_size=12)
    for name in sorted(vars(obj)):
        v = getattr(obj, name)
        if isinstance(v, np.ndarray):
            h.update(v.tobytes())
        elif isinstance(v, list):
            h.update(np.asarray(v, dtype=float).tobytes())
        else:
            h.update(repr(v).encode())
        h.update(b'|')
    h.update(repr((k, last)).encode())
    return h.digest()


def has_converged_run(terms):
    """three consecutive terms equal to within eps relative (the documented convergence guard)."""
    for a, b, c in zip(terms, terms[1:], terms[2:]):
        if abs(b - a) <= max(abs(a), abs(b)) * EPS and abs(c - b) <= max(abs(b), abs(c)) * EPS:
            return True
    return False


def dea_invariants(terms, out, limexp):
    """Checks on one transition of Dea.  out = (result, abserr) or exception.  returns (kind, text) or None"""
    if isinstance(out, Exception):
        import traceback
        tb = traceback.extract_tb(out.__traceback__)
        site = tb[-1].name if tb else '?'
        return ('raised-%s:in-%s' % (type(out).__name__, site),
                'Dea(limexp=%d) raised %s: %s at term %d' % (limexp, type(out).__name__, out, len(terms)))
    result, abserr = out
    m = len(terms)
    if not (np.isfinite(result) and np.isfinite(abserr)):
        return ('nonfinite', 'Dea(limexp=%d) returned (%r, %r) at term %d for finite input' % (limexp, result, abserr, m))
    if abserr < 0:
        return ('negative-error', 'Dea(limexp=%d) returned error %r < 0 at term %d' % (limexp, abserr, m))
    if m >= 3 and abserr < 5.0 * EPS * abs(result) * (1 - 4 * EPS):
        return ('error-floor', 'Dea(limexp=%d) error %r < 5 eps |result| = %r at term %d'
                % (limexp, abserr, 5 * EPS * abs(result), m))
    return None


def dea3_agreement(terms, out):
    """third term: result/error agree with dea3 (16 ulp of |e1| + |1/sss|)"""
    from numdifftools.extrapolation import dea3
    import warnings
    with warnings.catch_warnings():
        warnings.simplefilter('ignore')
        with np.errstate(all='ignore'):
            r3, e3 = dea3(terms[0], terms[1], terms[2])
    r3, e3 = float(r3[0]), float(e3[0])
    result, abserr = out
    e0, e1, e2 = terms
    d2, d1 = e2 - e1, e1 - e0
    scale = abs(e1) + abs(e2)
    if d1 != 0 and d2 != 0:
        sss = 1.0 / d2 - 1.0 / d1
        if sss != 0 and np.isfinite(sss):
            scale += abs(1.0 / sss)
    tol = 16 * EPS * scale
    if not abs(result - r3) <= tol:
        return ('dea3-result', 'third term %r: Dea result %r, dea3 %r' % (terms, result, r3))
    # Outside the convergence / irregular-behaviour guards both routines use the same error formula
    # err2 + |res - e2| + err3; inside the guards they document different conventions (Dea keeps the
    # QUADPACK value, dea3 adds 10*tol2), so the estimates are compared outside the guards only.
    tol2 = max(abs(e2), abs(e1)) * EPS
    tol1 = max(abs(e1), abs(e0)) * EPS
    guarded = abs(d2) <= 2 * tol2 or abs(d1) <= 2 * tol1
    if not guarded:
        sss = 1.0 / d2 - 1.0 / d1
        guarded = abs(sss * e1) <= 2e-4
    if not guarded and not abs(abserr - e3) <= tol + 5 * EPS * abs(result) + 8 * EPS * abs(e3):
        return ('dea3-error', 'third term %r: Dea error %r, dea3 error %r' % (terms, abserr, e3))
    return None


# ---------------------------------------------------------------------------------------------
# Dea: exhaustive tree (full alphabet, bounded depth) + prefix x periodic continuation (long runs)

def explore_dea(limexp, prefix, depth, acc, seen, stats, traps=False):
    """DFS from the state reached by `prefix` (list of symbols), full alphabet, to total depth."""
    from numdifftools.extrapolation import Dea
    obj = Dea(limexp=limexp)
    terms = []
    last = None
    ok = True
    for k, sym in enumerate(prefix):
        t = next_term(sym, k, last)
        terms.append(t)
        try:
            out = obj(t)
        except Exception as e:
            out = e
        stats['transitions'] += 1
        if not check_dea_step(limexp, prefix[:k + 1], terms, out, acc, root_only=(k + 1 < len(prefix)), traps=traps):
            ok = False
            break
        last = t
    if not ok:
        return

    def rec(obj, terms, syms, last):
        if len(syms) >= depth:
            return
        k = len(syms)
        for sym in ALPHABET:
            t = next_term(sym, k, last)
            o2 = copy.deepcopy(obj)
            try:
                out = o2(t)
            except Exception as e:
                out = e
            stats['transitions'] += 1
            terms.append(t)
            syms.append(sym)
            good = check_dea_step(limexp, syms, terms, out, acc, traps=traps)
            if good:
                d = digest(o2, k + 1, t)
                if d not in seen:
                    seen.add(d)
                    rec(o2, terms, syms, t)
                else:
                    stats['merged'] += 1
            terms.pop()
            syms.pop()

    rec(obj, terms, list(prefix), last)


def check_dea_step(limexp, syms, terms, out, acc, root_only=False, traps=False):
    prob = dea_invariants(terms, out, limexp)
    if prob is None and len(terms) == 3:
        prob = dea3_agreement(list(terms), out)
    if not root_only:
        acc.case(('dea-traps' if traps else 'dea', limexp, tuple(syms)), nontrivial=len(terms) >= 3,
                 cell=['dea-fp-traps/limexp=%d' % limexp] if traps else ['dea/limexp=%d' % limexp, 'dea/full' if len(terms) > limexp else 'dea/filling'],
                 outcome=None if isinstance(out, Exception) else (round(float(out[0]), 6), prob is None))
    if prob:
        if not root_only:
            acc.violation('C14:Dea:%s%s' % (prob[0], ':fp-traps' if traps else ''),
                          dict(kind='dea-traps' if traps else 'dea', limexp=limexp, syms=list(syms)),
                          prob[1] + (' [caller runs with np.errstate(divide, over, invalid = raise)]' if traps else ''),
                          rank=len(syms) * 100 + limexp)
        return False
    return True


def work_dea_tree(chunk, depth=6):
    acc = fw.Acc()
    seen = set()
    stats = dict(transitions=0, merged=0)
    for limexp, prefix in chunk:
        explore_dea(limexp, list(prefix), depth, acc, seen, stats)
    acc.count('dea_states', len(seen))
    acc.count('dea_transitions', stats['transitions'])
    acc.count('dea_merged_states', stats['merged'])
    return acc


def work_dea_traps(chunk, depth=5):
    """the same tree (one level less) explored while the CALLER has numpy's floating-point traps on (divide, overflow and
    invalid raise FloatingPointError): Dea tests before it divides, so "accepts any sequence without raising" does not depend
    on the caller's error state.  (Underflow is left at its default: the algorithm relies on gradual underflow.)"""
    acc = fw.Acc()
    seen = set()
    stats = dict(transitions=0, merged=0)
    with np.errstate(divide='raise', over='raise', invalid='raise'):
        for limexp, prefix in chunk:
            explore_dea(limexp, list(prefix), depth, acc, seen, stats, traps=True)
    acc.count('dea_transitions', stats['transitions'])
    return acc


def work_dea_long(chunk, length=60):
    """prefix (<= 3 symbols, full alphabet) followed by a periodic continuation to `length` terms."""
    from numdifftools.extrapolation import Dea
    acc = fw.Acc()
    ntrans = 0
    states = set()
    for limexp, prefix, period in chunk:
        if (limexp + len(prefix) + len(period)) % 2:
            obj = Dea(limexp=limexp)
        else:
            # the table size set through the documented attribute before the first term (same object as Dea(limexp))
            obj = Dea(limexp=3)
            obj.limexp = limexp
        terms, syms = [], []
        last = None
        for k in range(length):
            sym = prefix[k] if k < len(prefix) else period[(k - len(prefix)) % len(period)]
            t = next_term(sym, k, last)
            terms.append(t)
            syms.append(sym)
            try:
                out = obj(t)
            except Exception as e:
                out = e
            ntrans += 1
            prob = dea_invariants(terms, out, limexp)
            if prob:
                acc.violation('C14:Dea:%s' % prob[0],
                              dict(kind='dea-long', limexp=limexp, prefix=list(prefix), period=list(period), length=k + 1),
                              prob[1], rank=k * 100 + limexp)
                break
            states.add(digest(obj, 0, 0))
            last = t
        acc.case(('dea-long', limexp, prefix, period), nontrivial=True,
                 cell=['dealong/limexp=%d' % limexp], outcome=len(terms))
    acc.count('dea_states', len(states))
    acc.count('dea_transitions', ntrans)
    return acc


# ---------------------------------------------------------------------------------------------
# EpsAlg against the exact table

def epsalg_check(terms_float, value, table, table_in, unit=1.0):
    """value returned after the last term vs exact highest even entry.  Returns (status, text, ratio)"""
    v, e = table.highest_even()
    if v is None:
        return 'undefined', '', 0.0
    allow = 10 * float(e) + 4 * EPS * abs(float(v))
    err = abs(value - float(v))
    if not math.isfinite(allow):
        return 'undefined', '', 0.0
    scale = max(unit, abs(float(v)))
    if allow >= 0.5 * scale:
        # the first-order rounding bound exceeds the value itself: no digit of the table entry is determined by
        # the float data ("conditioning-scaled rounding" claims nothing here)
        return 'unresolved', '', 0.0
    nontrivial = allow < 1e-3 * scale
    if not err <= allow:
        return 'bad', ('after %d terms EpsAlg returned %r, exact table entry eps_%d^(%d) = %r (allowance %.3g)'
                       % (len(terms_float), value, 2 * ((len(terms_float) - 1) // 2),
                          (len(terms_float) - 1) % 2, float(v), allow)), err / allow
    return ('ok' if nontrivial else 'trivial'), '', (err / allow if allow > 0 else 0.0)


DEA_SCALES = [150, 190, -150, -300]      # 2^190 ~ 1.6e57, 2^-300 ~ 5e-91: far from 1, still inside the range of doubles


def work_dea_scaled(chunk):
    """Dea on single-transient model sequences multiplied by exact powers of two: the invariants at every term and the
    agreement with dea3 at the third term do not depend on the scale (nothing may be measured against a fixed magnitude)"""
    from numdifftools.extrapolation import Dea
    acc = fw.Acc()
    for L, q, a, sexp, limexp in chunk:
        obj = Dea(limexp=limexp)
        terms = []
        for n in range(6):
            t = float((Fraction(L) + Fraction(a) * Fraction(q) ** n) * Fraction(2) ** sexp)
            terms.append(t)
            try:
                out = obj(t)
            except Exception as e:      # noqa: BLE001
                out = e
            prob = dea_invariants(terms, out, limexp)
            if prob is None and n == 2 and not has_converged_run(terms):
                prob = dea3_agreement(terms, out)
            acc.case(('dea-scaled', L, q, a, sexp, limexp, n), nontrivial=True, cell='dea-scaled/2^%d' % sexp, outcome=prob is None)
            if prob:
                acc.violation('C14:Dea:%s:scaled' % prob[0], dict(kind='dea-scaled', L=L, q=q, a=a, sexp=sexp, limexp=limexp, n=n),
                              'terms (L + a q^n) 2^%d with L=%r a=%r q=%r: %s' % (sexp, L, a, q, prob[1]), rank=n)
                break
    return acc


def work_epsalg_model(chunk):
    """L + sum a_i q_i^n: all prefixes of length 1..2k+1; at 2k+1 the value must be L."""
    from numdifftools.extrapolation import EpsAlg, Dea
    acc = fw.Acc()
    ntrans = 0
    for L, qs, coefs, sexp in chunk:
        k = len(qs)
        unit = 2.0 ** sexp          # the whole sequence is multiplied by an exact power of two
        ea = EpsAlg()
        table = eo.Table(0)
        table_in = eo.Table(EPS)
        terms = []
        deas = {lim: Dea(limexp=lim) for lim in (3, 5, 7, 9)}
        for n in range(2 * k + 1):
            exact = (Fraction(L) + sum(Fraction(a) * Fraction(q) ** n for a, q in zip(coefs, qs))) * Fraction(2) ** sexp
            t = float(exact)
            terms.append(t)
            table.push(Fraction(t))
            table_in.push(Fraction(t))
            try:
                val = ea(t)
            except Exception as e:
                acc.violation('C14:EpsAlg:raised-%s' % type(e).__name__,
                              dict(kind='epsalg-model', L=L, qs=list(qs), coefs=list(coefs), n=n, sexp=sexp), str(e))
                break
            ntrans += 1
            status, text, ratio = epsalg_check(terms, val, table, table_in, unit)
            case = ('epsalg-model', L, qs, coefs, n, sexp)
            acc.case(case, nontrivial=(status == 'ok'), cell=['epsalg/transients=%d' % k, 'epsalg/len=%d' % (n + 1)],
                     outcome=status)
            if status == 'ok':
                acc.maxi('epsalg_worst_ratio_in_allowance_units', ratio)
            if status == 'bad':
                acc.violation('C14:EpsAlg:table-mismatch:len%%2=%d' % ((n + 1) % 2),
                              dict(kind='epsalg-model', L=L, qs=list(qs), coefs=list(coefs), n=n, sexp=sexp), text, rank=n)
                break
            if n == 2 * k:
                v, e = table_in.highest_even()
                if v is not None:
                    Ls = L * unit
                    allow = 10 * float(e) + 4 * EPS * abs(Ls)
                    if allow < 1e-3 * max(unit, abs(Ls)) and not abs(val - Ls) <= allow:
                        acc.violation('C14:EpsAlg:limit-not-recovered', dict(kind='epsalg-model', L=L, qs=list(qs),
                                                                             coefs=list(coefs), n=n, sexp=sexp),
                                      'k=%d transients, %d terms: EpsAlg %r, limit %r (allowance %.3g)'
                                      % (k, n + 1, val, Ls, allow), rank=n)
            # Dea on the same prefix: its result is one of the even entries of the newest anti-diagonal
            for lim, dea in deas.items():
                try:
                    r, ab = dea(t)
                except Exception as e:
                    acc.violation('C14:Dea:raised-%s:model-sequence' % type(e).__name__,
                                  dict(kind='epsalg-model', L=L, qs=list(qs), coefs=list(coefs), n=n, limexp=lim, sexp=sexp), str(e))
                    continue
                ntrans += 1
                if n + 1 <= lim and n >= 2 and table.min_rel_delta is not None and table.min_rel_delta > 1e-3:
                    cands = table.even_antidiagonal()
                    ok = any(abs(r - float(v)) <= 10 * float(e) + 16 * EPS * abs(float(v)) for _, v, e in cands)
                    acc.case(('dea-model', lim, L, qs, coefs, n, sexp), nontrivial=True, cell='dea/agrees-with-table', outcome=ok)
                    if not ok:
                        acc.violation('C14:Dea:not-a-table-entry', dict(kind='epsalg-model', L=L, qs=list(qs),
                                                                        coefs=list(coefs), n=n, limexp=lim, sexp=sexp),
                                      'Dea(limexp=%d) after %d terms returned %r; even entries of the newest '
                                      'anti-diagonal: %r' % (lim, n + 1, r, [float(v) for _, v, _ in cands]), rank=n)
    acc.count('epsalg_transitions', ntrans)
    return acc


def work_epsalg_tree(chunk, depth=5):
    """all alphabet sequences to `depth`, EpsAlg vs exact table whenever the table is well separated."""
    from numdifftools.extrapolation import EpsAlg
    acc = fw.Acc()
    stats = dict(tr=0)
    for prefix in chunk:
        ea = EpsAlg()
        table = eo.Table(0)
        terms = []
        last = None
        dead = False
        for k, sym in enumerate(prefix):
            t = next_term(sym, k, last)
            terms.append(t)
            table.push(Fraction(t))
            try:
                ea(t)
            except Exception as e:
                dead = True
            last = t
        if dead:
            continue

        def rec(ea, syms, last):
            k = len(syms)
            if k >= depth:
                return
            for sym in ALPHABET:
                t = next_term(sym, k, last)
                e2 = copy.deepcopy(ea)
                terms.append(t)
                syms.append(sym)
                table.push(Fraction(t))
                stats['tr'] += 1
                try:
                    val = e2(t)
                    exc = None
                except Exception as e:
                    exc = e
                if exc is not None:
                    acc.case(('epsalg-tree', tuple(syms)), nontrivial=False, outcome='raised')
                    acc.violation('C14:EpsAlg:raised-%s' % type(exc).__name__, dict(kind='epsalg-tree', syms=list(syms)),
                                  '%s: %s' % (type(exc).__name__, exc), rank=len(syms))
                else:
                    sep = (not table.dead) and table.min_rel_delta is not None and table.min_rel_delta >= 1e-6
                    status = 'unseparated'
                    if sep:
                        status, text, ratio = epsalg_check(terms, val, table, None)
                        if status == 'bad':
                            acc.violation('C14:EpsAlg:table-mismatch:len%%2=%d' % (len(terms) % 2),
                                          dict(kind='epsalg-tree', syms=list(syms)), text, rank=len(syms))
                        elif status == 'ok':
                            acc.maxi('epsalg_worst_ratio_in_allowance_units', ratio)
                    acc.case(('epsalg-tree', tuple(syms)), nontrivial=(status == 'ok'),
                             cell='epsalg/tree-len=%d' % len(terms), outcome=status)
                    rec(e2, syms, t)
                table.pop()
                terms.pop()
                syms.pop()

        rec(ea, list(prefix), last)
    acc.count('epsalg_transitions', stats['tr'])
    return acc


QS = [0.5, -0.4, 0.8, 0.3, -0.7]
AS = [1.0, 0.3, -2.0]
LS = [1.0, 0.0, -3.7]


SCALE_EXPONENTS = [0, -70, 70]     # sequences are also fed multiplied by 2**-70 and 2**70 (exact scaling)


def model_sequences():
    out = []
    for k in (1, 2, 3, 4):
        for qs in itertools.combinations(QS, k):
            for coefs in itertools.product(AS, repeat=k):
                for L in LS:
                    for sexp in SCALE_EXPONENTS:
                        out.append((L, qs, coefs, sexp))
    return out


def run(ctx):
    acc = fw.Acc()
    q = ctx.quick
    # Dea exhaustive tree
    limexps = [3, 4, 5, 6, 7] if q else [3, 4, 5, 6, 7, 9, 50]
    depth = 6 if q else 7
    roots = [(lim, pre) for lim in limexps for pre in itertools.product(ALPHABET, repeat=2)]
    acc.merge(ctx.pmap(work_dea_tree, roots, chunk=2, depth=depth))
    acc.merge(ctx.pmap(work_dea_traps, roots, chunk=4, depth=depth - 1))
    # Dea long runs: prefix x periodic continuation
    lims_long = [3, 4, 5, 6, 7, 9, 12, 20, 50] if q else list(range(3, 61))
    plen = 2 if q else 3
    prefixes = [p for n in range(0, plen + 1) for p in itertools.product(ALPHABET, repeat=n)]
    periods = [(s,) for s in ALPHABET] + [p for p in itertools.permutations(ALPHABET, 2)]
    length = 60 if q else 200
    jobs = [(lim, pre, per) for lim in lims_long for pre in prefixes for per in periods]
    acc.merge(ctx.pmap(work_dea_long, jobs, chunk=200, length=length))
    # EpsAlg
    acc.merge(ctx.pmap(work_epsalg_model, model_sequences(), chunk=30))
    acc.merge(ctx.pmap(work_dea_scaled, [(L, qq, a, se, lim) for L in LS for qq in QS for a in AS for se in DEA_SCALES for lim in (3, 6, 50)],
                       chunk=60))
    tdepth = 5 if q else 7
    acc.merge(ctx.pmap(work_epsalg_tree, list(itertools.product(ALPHABET, repeat=2)), chunk=1, depth=tdepth))

    c = acc.counters
    states = int(c.get('dea_states', 0)) + int(c.get('epsalg_transitions', 0))
    transitions = int(c.get('dea_transitions', 0)) + int(c.get('epsalg_transitions', 0))
    acc.sample(dict(kind='dea-tree', limexp=5, symbols=['geo', 'geo', 'rep', 'ulp', 'jump', 'zero'],
                    terms=[next_term(s, k, 1.0) for k, s in enumerate(['geo', 'geo', 'rep', 'ulp', 'jump', 'zero'])]))
    acc.sample(dict(kind='dea-long', limexp=5, prefix=['geo', 'alt'], period=['rep', 'ulp'], length=length))
    acc.sample(dict(kind='epsalg-model', L=-3.7, qs=[0.5, -0.4], coefs=[1.0, -2.0], prefixes='1..5 terms'))
    req = ['dea-fp-traps/limexp=%d' % l for l in limexps] + ['dea/limexp=%d' % l for l in limexps] + ['dealong/limexp=%d' % l for l in lims_long] + [
        'epsalg/transients=%d' % k for k in (1, 2, 3, 4)] + ['dea/full', 'dea/filling', 'dea/agrees-with-table']
    rule = ('E2 on the real objects. Dea: every sequence over the 8-symbol alphabet %r to depth %d for limexp in %r '
            '(states merged on an exact digest of the object fields); every (prefix of <= %d symbols) x (constant or '
            '2-periodic continuation) to %d terms for limexp in %d values up to %d; invariants on every transition: no '
            'exception, finite outputs, error >= 0, error >= 5 eps |result| from the third term, third term == dea3, '
            'result is an even entry of the exact anti-diagonal on well-separated model sequences. EpsAlg: all '
            '%d model sequences L + sum a_i q_i^n (k = 1..4) on every prefix 1..2k+1, and every alphabet sequence '
            'to depth %d whose exact table is separated (min relative difference >= 1e-6), against the exact '
            'rational epsilon table with 10x its first-order running-error bound.  Non-trivial = allowance '
            '< 1e-3 max(1,|value|) (EpsAlg), >= 3 terms (Dea).'
            % (ALPHABET, depth, limexps, plen, length, len(lims_long), max(lims_long), len(model_sequences()), tdepth))
    cov = dict(states=max(states, 1), transitions=max(transitions, 1), traces_validated_against_impl=transitions,
               max_depth_full_alphabet=depth, max_length=length)
    return fw.finish(ctx, acc, LEVEL, rule, exhaustive=True, required_cells=req, coverage_extra=cov,
                     assumptions=['terms stay normal and of moderate magnitude (no sub-normal differences)',
                                  'the transition function IS the implementation: every transition is a real call',
                                  'the oracle table is exact rational arithmetic on the float terms'])


def replay(case):
    from numdifftools.extrapolation import Dea, EpsAlg
    kind = case['kind']
    acc = fw.Acc()
    if kind == 'dea-scaled':
        a = work_dea_scaled([(case['L'], case['q'], case['a'], case['sexp'], case['limexp'])])
        bad = [r['detail'] for k, (n, recs) in a.viol.items() for r in recs]
        return not bad, '%r -> %s' % (case, bad or 'ok')
    if kind == 'dea-traps':
        obj = Dea(limexp=case['limexp'])
        terms, last, out = [], None, None
        with np.errstate(divide='raise', over='raise', invalid='raise'):
            for k, s in enumerate(case['syms']):
                t = next_term(s, k, last)
                terms.append(t)
                try:
                    out = obj(t)
                except Exception as e:      # noqa: BLE001
                    out = e
                    break
                last = t
        prob = dea_invariants(terms, out, case['limexp'])
        return prob is None, 'Dea(limexp=%d) fed %r under np.errstate(divide, over, invalid = raise) -> %r ; %r' % (
            case['limexp'], terms, out, prob)
    if kind == 'dea':
        seen, stats = set(), dict(transitions=0, merged=0)
        explore_dea(case['limexp'], case['syms'], len(case['syms']), acc, seen, stats)
        # the last step of the prefix is checked as a non-root step:
        obj = Dea(limexp=case['limexp'])
        terms, last, out = [], None, None
        for k, s in enumerate(case['syms']):
            t = next_term(s, k, last)
            terms.append(t)
            try:
                out = obj(t)
            except Exception as e:
                out = e
                break
            last = t
        prob = dea_invariants(terms, out, case['limexp'])
        if prob is None and len(terms) == 3 and not isinstance(out, Exception):
            prob = dea3_agreement(terms, out)
        return prob is None, 'Dea(limexp=%d) fed %r -> %r ; %r' % (case['limexp'], terms, out, prob)
    if kind == 'dea-long':
        a = work_dea_long([(case['limexp'], tuple(case['prefix']), tuple(case['period']))], length=case['length'])
        bad = [r['detail'] for k, (n, recs) in a.viol.items() for r in recs]
        return not bad, 'dea-long %r -> %r' % (case, bad or 'ok')
    if kind == 'epsalg-model':
        a = work_epsalg_model([(case['L'], tuple(case['qs']), tuple(case['coefs']), case.get('sexp', 0))])
    else:
        syms = case['syms']
        a = work_epsalg_tree([tuple(syms[:2])], depth=len(syms))
    bad = [r['detail'] for k, (n, recs) in a.viol.items() for r in recs]
    return not bad, '%r -> %r' % (case, bad or 'ok')
