"""C16 - fd_derivative is exact on polynomials at every grid point (DESIGN 5/C16).

E1: n 1..6 x m 1..4 x grid lengths x 4 grid families x {increasing, decreasing} x every monomial
(x - c)^d, d = 0..2*mm (mm = n//2 + m), c in {0, grid mid-point}; plus an integer-sample sub-space
(int64 samples of (x - c)^d on an integer grid, the natural `x = np.arange(N); fx = x**d` input).

Oracle: the exact n-th derivative of the monomial at every grid point in rational arithmetic on the
float grid.  The samples handed to the library are the exact monomial values rounded once.  The
allowance at grid point i uses the EXACT stencil weights of that point (mc/oracle/lagrange.py) for
the nodes the documentation of fd_derivative names: the 2mm+1 nodes i-mm..i+mm in the interior, the
first (last) 2mm+2 nodes for each of the first (last) mm points:

    allowance_i = 100 * eps * sum_j S_j |f_j|,   S_j >= |w_j| the cancellation-free weight magnitude

(one rounding per sample and a dot product cost <= (2mm+3) u sum|w_j||f_j|; the weights come out of a
recursion that multiplies the basis polynomials out factor by factor, <= ~10 roundings per factor,
hence <= ~10 (2mm+2) u S_j <= 80 eps S_j each).  The error is also reported in the planned units
eps * sum_j |w_j||f_j| (DESIGN allowance 1e4), together with the largest ratio sum S|f| / sum |w||f|.
"""
import math
import warnings
from fractions import Fraction

import numpy as np

from mc import framework as fw
from mc.oracle import lagrange as lg

LEVEL = 'exploration'
EPS = float(np.finfo(float).eps)
C_ALLOW = 100.0
GRIDS = ['uniform', 'geometric', 'cosine', 'jittered']
SCALED_GRIDS = ['coarse-uniform', 'coarse-jittered', 'fine-cosine']     # spacing ~600 / ~400 / ~1e-10 (exact 2^k scalings)
NS = range(1, 7)
MS = range(1, 5)
NONTRIVIAL_REL = 1e-3      # a point is a non-trivial witness if allowance <= 1e-3 * |exact derivative| != 0


def grid(kind, N):
    if kind == 'uniform':
        return [-0.7 + 0.15 * i for i in range(N)]
    if kind == 'geometric':          # stretched: spacing grows by 7 % per step
        return [1.07 ** i - 1.0 for i in range(N)]
    if kind == 'cosine':             # clustered at both ends
        return [-math.cos(math.pi * i / (N - 1)) for i in range(N)]
    if kind == 'jittered':           # deterministic jitter of +-30 % of the spacing
        return [0.1 * (i + 0.3 * math.sin(7.3 * i + 1.0)) for i in range(N)]
    if kind == 'coarse-uniform':     # the same shapes on other scales: the weights scale like spacing^-n, nothing may
        return [4096.0 * v for v in grid('uniform', N)]      # be measured against an absolute size
    if kind == 'coarse-jittered':
        return [4096.0 * v for v in grid('jittered', N)]
    if kind == 'fine-cosine':
        return [3.0 + 2.0 ** -30 * v for v in grid('cosine', N)]
    if kind == 'integer':            # int64 grid, int64 samples
        return [i - N // 2 for i in range(N)]
    raise KeyError(kind)


def lengths(n, m, thorough):
    mm = n // 2 + m
    lmin = 2 * mm + 2
    ls = {lmin, lmin + 1, lmin + 2, 2 * lmin, 60}
    if thorough:
        ls |= {lmin + 3, lmin + 4, 2 * lmin - 1, 2 * lmin + 1, 41, 59}
    return sorted(ls)


def centres(x, thorough):
    mid = (x[0] + x[-1]) / 2 if isinstance(x[0], float) else (x[0] + x[-1]) // 2
    cs = [type(mid)(0)]
    if mid != 0:
        cs.append(mid)
    if thorough and isinstance(mid, float):
        cs.append(x[len(x) // 3] + 0.013)
    return cs


def stencil(i, N, mm):
    """Index range documented for grid point i."""
    if i < mm:
        return 0, 2 * mm + 2
    if i >= N - mm:
        return N - (2 * mm + 2), N
    return i - mm, i + mm + 1


def point_cell(i, N, mm):
    if i < mm:
        return 'left-boundary-%d' % i
    if i >= N - mm:
        return 'right-boundary-%d' % (N - 1 - i)
    if i == mm:
        return 'first-interior'       # for N = 2mm+2 .. the first interior point may also be the last
    if i == N - mm - 1:
        return 'last-interior'
    return None


def region(i, N, mm):
    return 'left-boundary' if i < mm else ('right-boundary' if i >= N - mm else 'interior')


_STENCILS = {}


def stencils(x, n, mm):
    """Per grid point: (lo, hi, |w| floats, S floats) of the documented stencil, exact row n."""
    key = (tuple(x), n, mm)
    ent = _STENCILS.get(key)
    if ent is None:
        _STENCILS.clear()                  # one grid at a time
        N = len(x)
        ent = []
        for i in range(N):
            lo, hi = stencil(i, N, mm)
            W, S = lg.weights(x[lo:hi], x[i], n, with_scales=True)
            ent.append((lo, hi, np.array([abs(float(v)) for v in W[n]]), np.array([float(v) for v in S[n]])))
        _STENCILS[key] = ent
    return ent


def samples(x, c, d, dtype):
    """Exact monomial values rounded once (float64) or exact integers (int64; None if not exactly
    representable both as int64 and as float64)."""
    if dtype == 'int64':
        vals = [(v - c) ** d for v in x]
        if max(abs(v) for v in vals) >= 2 ** 53:
            return None, None
        return np.array(vals, dtype=np.int64), [Fraction(v) for v in vals]
    cf = Fraction(c)
    ex = [(Fraction(v) - cf) ** d for v in x]
    return np.array([float(v) for v in ex], dtype=float), ex


def expectation(x, n, m, c, d, dtype):
    """Oracle side of one case (independent of the library): the samples and, per grid point,
    (exact derivative as Fraction, allowance, sum|w||f|, sum S|f|).  None if the integer samples are not
    exactly representable."""
    N = len(x)
    mm = n // 2 + m
    fx, _ = samples(x, c, d, dtype)
    if fx is None:
        return None, None
    st = stencils(x, n, mm)
    absf = np.abs(fx.astype(float))
    exp = []
    for i in range(N):
        lo, hi, aw, s = st[i]
        f = absf[lo:hi]
        sw = float(np.dot(aw, f))
        ss = float(np.dot(s, f))
        exp.append((lg.monomial_derivative(d, c, n, x[i]), C_ALLOW * EPS * ss, sw, ss))
    return fx, exp


def check_call(x, n, m, c, d, dtype, fx, exp):
    """One fd_derivative call against the expectation.  returns (problem or None, errors or None)
    problem = (key tail, detail);  errors[i] = |output_i - exact_i| as float"""
    from numdifftools.fornberg import fd_derivative
    N = len(x)
    mm = n // 2 + m
    xa = np.array(x, dtype=np.int64 if dtype == 'int64' else float)
    fx_before = fx.copy()
    with warnings.catch_warnings(), np.errstate(all='ignore'):
        warnings.simplefilter('ignore')
        try:
            du = fd_derivative(fx, xa, n, m)
        except Exception as e:
            return ('raised-%s:%s:%s-samples' % (type(e).__name__, 'N=Lmin' if N == 2 * mm + 2 else 'N>Lmin', dtype),
                    'n=%d m=%d N=%d: fd_derivative raised %s: %s' % (n, m, N, type(e).__name__, e)), None
    du = np.asarray(du)
    if du.shape != (N,):
        return ('length', 'n=%d m=%d: output shape %r for an input of length %d' % (n, m, du.shape, N)), None
    # the same request with numpy integers for n and m and the grid as a list of Python numbers: the same output, bit for bit
    with warnings.catch_warnings(), np.errstate(all='ignore'):
        warnings.simplefilter('ignore')
        try:
            du2 = np.asarray(fd_derivative(fx, xa.tolist(), np.int64(n), np.int32(m)))      # ... and the grid as a plain list
        except Exception as e:
            return ('numpy-integer-arguments:raised-%s' % type(e).__name__,
                    'n=%d m=%d N=%d as numpy integers: fd_derivative raised %s: %s' % (n, m, N, type(e).__name__, e)), None
    if du2.shape != du.shape or du2.tobytes() != du.tobytes():
        return ('numpy-integer-arguments:differs', 'n=%d m=%d as numpy integers give %r, as Python integers %r'
                % (n, m, du2.tolist(), du.tolist())), None
    if not np.array_equal(fx, fx_before):
        return ('input-modified', 'the sample array was modified in place'), None
    if du.dtype.kind not in 'fiu' or not np.all(np.isfinite(du.astype(float))):
        return ('nonfinite', 'output dtype %s, values %r' % (du.dtype, du.tolist())), None
    errs = []
    worst = None
    for i in range(N):
        exact, allow, sw, ss = exp[i]
        got = Fraction(int(du[i])) if du.dtype.kind in 'iu' else Fraction(float(du[i]))
        err = float(abs(got - exact))
        errs.append(err)
        if not err <= allow:
            over = err / allow if allow > 0 else float('inf')
            if worst is None or over > worst[0]:
                worst = (over, i)
    if worst is None:
        # samples of a vector function (documented: "fx: vector function values"): a column (N, 1) and a table (N, 2) whose
        # second column is exactly twice the first; every column within its own allowance, output of the input's shape
        if dtype != 'int64' and d in (n, 2 * mm):       # the monomial the rule differentiates to a constant, and the top degree
            for form, F in (('column', fx.reshape(N, 1)), ('table', np.column_stack([fx, 2.0 * fx]))):
                with warnings.catch_warnings(), np.errstate(all='ignore'):
                    warnings.simplefilter('ignore')
                    try:
                        dF = np.asarray(fd_derivative(F.copy(), xa, n, m))
                    except Exception as e:
                        return ('vector-function-samples:%s:raised-%s' % (form, type(e).__name__),
                                'n=%d m=%d N=%d, fx of shape %r: fd_derivative raised %s: %s' % (n, m, N, F.shape, type(e).__name__, e)), errs
                if dF.shape != F.shape:
                    return ('vector-function-samples:%s:shape' % form, 'fx of shape %r gave an output of shape %r' % (F.shape, dF.shape)), errs
                for col in range(F.shape[1]):
                    for i in range(N):
                        exact, allow, sw, ss = exp[i]
                        if not (np.isfinite(dF[i, col]) and
                                float(abs(Fraction(float(dF[i, col])) - (col + 1) * exact)) <= (col + 1) * allow + 4 * EPS * abs(float(exact)) * (col + 1)):
                            return ('vector-function-samples:%s:value' % form,
                                    'n=%d m=%d N=%d, fx of shape %r: output[%d, %d] = %r, exact %.17g (allowance %.3g); the same '
                                    'samples as a flat vector are within the allowance' % (n, m, N, F.shape, i, col, dF[i, col],
                                                                                         float((col + 1) * exact), (col + 1) * allow)), errs
        return None, errs
    i = worst[1]
    exact, allow, sw, ss = exp[i]
    direction = 'increasing' if x[-1] > x[0] else 'decreasing'
    if dtype == 'int64' and du.dtype.kind in 'iu':
        tail = 'value:integer-samples-integer-output'      # the result was forced into an integer array
    else:
        tail = 'value:%s:%s' % (region(i, N, mm), direction) + (':integer-samples' if dtype == 'int64' else '')
    nbad = sum(1 for e, q in zip(errs, exp) if not e <= q[1])
    detail = ('n=%d m=%d N=%d monomial (x-%r)^%d: point %d (%s, x=%r): got %r, exact %.17g, error %.3g > allowance '
              '%.3g (= %.3g eps*sum|w||f|); %d of %d points outside; output dtype %s'
              % (n, m, N, c, d, i, point_cell(i, N, mm) or 'interior', x[i], du[i].item(), float(exact), errs[i],
                 allow, errs[i] / (EPS * sw) if sw > 0 else float('inf'), nbad, N, du.dtype))
    return (tail, detail), errs


def work(chunk, thorough=False, seed=0):
    acc = fw.Acc()
    for n, m, N, kind, direction in chunk:
        mm = n // 2 + m
        x = grid(kind, N)
        if direction == 'decreasing':
            x = x[::-1]
        dtype = 'int64' if kind == 'integer' else 'float64'
        cs = centres(x, thorough)
        if not thorough and N == 60 and len(cs) > 1:
            # quick tier: the long grid takes one of the two centres (seed-rotated; both in thorough)
            cs = [cs[(seed + n + m + (direction == 'decreasing')) % len(cs)]]
        for c in cs:
            for d in range(0, 2 * mm + 1):
                if d == 0 and c != cs[0]:
                    continue                      # (x-c)^0 is the same monomial for every c
                fx, exp = expectation(x, n, m, c, d, dtype)
                if fx is None:
                    acc.count('integer-samples-not-exactly-representable-skipped')
                    continue
                # coverage is decided from the oracle side only
                cells, nontrivial = [], False
                for i, (exact, allow, sw, ss) in enumerate(exp):
                    if exact != 0 and allow <= NONTRIVIAL_REL * abs(exact):
                        nontrivial = True
                        pc = point_cell(i, N, mm)
                        if pc:
                            cells.append('n=%d,m=%d/%s' % (n, m, pc))
                    if dtype == 'float64' and sw > 0:
                        acc.maxi('max_conditioning_ratio_sum_S|f|/sum|w||f|', ss / sw)
                if nontrivial:
                    cells += ['grid=' + kind, 'direction=' + direction, 'degree=%d' % d,
                              'length=' + ('Lmin' if N == 2 * mm + 2 else 'Lmin+1' if N == 2 * mm + 3 else
                                           '2Lmin' if N == 4 * mm + 4 else '60' if N == 60 else 'other'),
                              'centre=' + ('0' if c == 0 else 'offset')]
                prob, errs = check_call(x, n, m, c, d, dtype, fx, exp)
                if errs is not None:
                    for err, (exact, allow, sw, ss) in zip(errs, exp):
                        acc.maxi('worst_error_in_allowance_units(100*eps*sum_S|f|)/%s-samples' % dtype,
                                 err / allow if allow > 0 else (0.0 if err == 0 else float('inf')))
                        if dtype == 'float64':
                            acc.maxi('worst_error_in_eps*sum|w||f|_units(DESIGN_allowance_1e4)',
                                     err / (EPS * sw) if sw > 0 else (0.0 if err == 0 else float('inf')))
                    acc.count('grid_points_checked', len(errs))
                acc.case((n, m, N, kind, direction, c, d), nontrivial=nontrivial, cell=cells,
                         outcome=(n, m, d, prob[0] if prob else 'ok'))
                if prob:
                    case = dict(n=n, m=m, N=N, grid=kind, direction=direction, c=c, d=d, dtype=dtype)
                    acc.violation('C16:fd_derivative:' + prob[0], case, prob[1],
                                  rank=mm * 10000 + N * 100 + d * 2 + (direction == 'decreasing'))
    return acc


# ---------------------------------------------------------------------------------------------
# two-step histories: a call must not depend on an earlier call (same grid, other order n / stencil m, ...)

def history_cases():
    grids = [np.linspace(-1.0, 2.5, 14), (1.5 - np.linspace(0.0, 1.0, 14) ** 2 * 3.0)]
    out = []
    for gi in range(len(grids)):
        for n, m in ((1, 1), (2, 1), (3, 1), (1, 2), (2, 2), (4, 1)):
            out.append((gi, n, m))
    return grids, out


def history_run(case, shared):
    from numdifftools.fornberg import fd_derivative
    grids, _ = history_cases()
    gi, n, m = case
    x = grids[gi]
    fx = ((x - 0.25) ** 4 - 2.0 * x * x + 3.0 * x)
    try:
        return fw.obs(fd_derivative(fx, x, n, m))
    except Exception as e:
        return fw.obs(e)


def work_history(chunk):
    acc = fw.Acc()
    fw.pair_histories(acc, 'C16', 'fd_derivative-call-order', history_cases()[1], history_run)
    return acc


def run(ctx):
    thorough = not ctx.quick
    cases = []
    for n in NS:
        for m in MS:
            lmin = 2 * (n // 2 + m) + 2
            for N in lengths(n, m, thorough):
                for kind in GRIDS + ['integer'] + SCALED_GRIDS:
                    if kind == 'integer' and ctx.quick and N not in (lmin, lmin + 1, 2 * lmin):
                        continue                  # quick tier: integer-sample sub-space on three lengths
                    if kind in SCALED_GRIDS and N not in ((lmin, lmin + 2) if ctx.quick else (lmin, lmin + 1, lmin + 2, 2 * lmin)):
                        continue                  # scaled grids: the short lengths
                    for direction in ('increasing', 'decreasing'):
                        cases.append((n, m, N, kind, direction))
    # most expensive first, dealt over the chunks
    cases.sort(key=lambda c: -(c[2] * (c[0] // 2 + c[1]) ** 3))
    acc = ctx.pmap(work, cases, chunk=1, thorough=thorough, seed=ctx.seed)
    acc.merge(ctx.pmap(work_history, [0], chunk=1))
    x = grid('jittered', 8)
    acc.sample(dict(n=2, m=2, N=8, grid='jittered', x=x, monomial='(x-%r)^3' % ((x[0] + x[-1]) / 2),
                    fx=samples(x, (x[0] + x[-1]) / 2, 3, 'float64')[0].tolist()))
    acc.sample(dict(n=6, m=4, N=60, grid='cosine', direction='decreasing', monomial='x^14', stencils='first/last 16 '
                    'nodes for the 7 points at either end, 15 centred nodes elsewhere'))
    acc.sample(dict(n=1, m=1, N=4, grid='geometric', x=grid('geometric', 4), monomials='(x-c)^d, d=0..2'))
    acc.sample(dict(n=3, m=1, N=12, grid='integer', dtype='int64', x=grid('integer', 12), monomial='x^4'))
    req = []
    for n in NS:
        for m in MS:
            mm = n // 2 + m
            req += ['n=%d,m=%d/left-boundary-%d' % (n, m, i) for i in range(mm)]
            req += ['n=%d,m=%d/right-boundary-%d' % (n, m, i) for i in range(mm)]
            req += ['n=%d,m=%d/first-interior' % (n, m), 'n=%d,m=%d/last-interior' % (n, m)]
    req += ['grid=' + g for g in GRIDS + SCALED_GRIDS] + ['direction=increasing', 'direction=decreasing',
                                           'length=Lmin', 'length=Lmin+1', 'length=2Lmin', 'length=60',
                                           'centre=0', 'centre=offset'] + ['degree=%d' % d for d in range(1, 15)]
    rule = ('n 1..6 x m 1..4 x lengths {Lmin, Lmin+1, Lmin+2, 2Lmin, 60%s} (Lmin = 2(n//2+m)+2) x grids {uniform, '
            'stretched geometric, cosine-clustered, deterministic jittered; + int64 grid with int64 samples} x '
            '{increasing, decreasing} (+ the uniform and jittered grids times 4096 and the cosine grid shrunk by 2^-30 around 3, short lengths) x every monomial (x-c)^d, d = 0..2(n//2+m), c in {0, grid mid-point%s}; the '
            'samples are the exact values rounded once; every output entry is compared with the exact rational '
            'n-th derivative at that grid point; allowance 100*eps*sum_j S_j|f_j| over the documented stencil of the '
            'point (S_j >= |w_j| cancellation-free exact weight magnitude: one rounding per sample, the dot product, '
            'and <= ~10 roundings per factor of the multiplied-out basis polynomials); output length == input length; '
            'input not modified.%s  A grid point is a non-trivial witness when the exact derivative is non-zero and the '
            'allowance is <= 1e-3 of it; cells = every boundary position and first/last interior point of every '
            '(n, m).' % (', Lmin+3, Lmin+4, 2Lmin-1, 2Lmin+1, 41, 59' if thorough else '',
                         ', x[N//3]+0.013' if thorough else '',
                         '' if thorough else '  Quick tier: on the 60-point grids one of the two centres (seed-rotated '
                         'per (n, m, direction)); integer sub-space on lengths Lmin, Lmin+1, 2Lmin only.'))
    return fw.finish(ctx, acc, LEVEL, rule, exhaustive=True, required_cells=req,
                     assumptions=['the documented stencil (docstring of fd_derivative: 2mm+1 centred nodes in the '
                                  'interior, the first/last 2mm+2 nodes for the mm points at either end) defines the '
                                  'conditioning scale of the allowance, not the expected value',
                                  'integer sub-space: only monomials whose samples are exactly representable both as '
                                  'int64 and as float64 (|value| < 2^53)',
                                  'grids are the fixed families of this driver; lengths above 60 are not explored'])


def replay(case):
    if case.get('kind') == 'history':
        cs = history_cases()[1]
        a, b = cs[case['i']], cs[case['j']]
        fw.fresh_library_state()
        alone = history_run(b, {})
        fw.fresh_library_state()
        history_run(a, {})
        got = history_run(b, {})
        fw.fresh_library_state()
        return got == alone, 'fd_derivative %r then %r: %s' % (a, b, 'same' if got == alone else 'differs from the call alone')
    n, m, N = int(case['n']), int(case['m']), int(case['N'])
    x = grid(case['grid'], N)
    if case['direction'] == 'decreasing':
        x = x[::-1]
    dtype = case.get('dtype', 'float64')
    c = int(case['c']) if dtype == 'int64' else float(case['c'])
    d = int(case['d'])
    fx, exp = expectation(x, n, m, c, d, dtype)
    if fx is None:
        raise ValueError('recorded case is outside the explored space (samples not representable)')
    prob, _ = check_call(x, n, m, c, d, dtype, fx, exp)
    text = 'n=%d m=%d N=%d grid=%s %s c=%r d=%d dtype=%s -> %s' % (
        n, m, N, case['grid'], case['direction'], c, d, dtype, ('%s: %s' % prob) if prob else 'ok')
    return prob is None, text
