"""C19 - nd_scipy wrappers return the Jacobian / gradient and respect bounds (DESIGN 5/C19).

E1: n x m x {affine, ridge} maps x points x methods x steps x bounds x forwarded extras, through the
real nd_scipy.Jacobian / nd_scipy.Gradient with a recording wrapper around the user function.
Oracle: closed-form Jacobians of the maps from one-dimensional jets (60 digits), a Taylor majorant
of the truncation error of the DOCUMENTED difference schemes at the DOCUMENTED nominal step, and a
first-order evaluation-noise bound of the user function.  No numdifftools / scipy code is shared.
"""
import warnings

import mpmath as mp
import numpy as np

from mc import framework as fw
from mc.oracle import jets

LEVEL = 'exploration'
EPS = float(np.finfo(float).eps)
K = 12                                  # Taylor coefficients kept per entry
METHODS = ['central', 'forward', 'complex']
STEPS = [None, 1e-4, 1e-2]
EPS_M = {'forward': EPS ** 0.5, 'central': EPS ** (2.0 / 3), 'complex': EPS}
FUNS = ['exp', 'sin', 'cosh', 'arctan', 'square', 'recip2']
PAIRS = [(g, h) for g in FUNS for h in FUNS]
POINTS = [[0.7, -1.3, 0.45, 2.1, -0.6, 1.15], [-0.25, 1.9, 0.0, -0.8, 1.4, -2.2],
          [1e-4, -3e-6, 2.1, 1e-9, 0.5, -2.5e-11],     # small non-zero coordinates: the default step must not collapse
          [1.0, -2.0, 3.0, 2.0, -1.0, 4.0]]             # handed to the wrapper as an INTEGER array (see INT_POINTS)
INT_POINTS = {3}

NP_FUN = dict(exp=np.exp, sin=np.sin, cosh=np.cosh, arctan=np.arctan,
              square=lambda t: t * t, recip2=lambda t: 1.0 / (2.0 + t * t))


def _jet_recip2(u):
    w = jets.mul(u, u)
    w[0] = w[0] + 2
    return jets.div(jets.const(1, len(u)), w)


JET_FUN = dict(exp=jets.exp, sin=jets.sin, cosh=jets.cosh, arctan=jets.arctan,
               square=lambda u: jets.mul(u, u), recip2=_jet_recip2)


# ---------------------------------------------------------------------------------------------
# the maps

def affine_A(m, n):
    """deterministic non-symmetric integer-plus-half matrix and offset"""
    A = np.array([[((3 * i + 5 * k + 1) % 7 - 3) + 0.5 for k in range(n)] for i in range(m)])
    b = np.array([i - 1.5 for i in range(m)])
    return A, b


def ridge_coef(m, n):
    a = np.array([[((i + 2 * k) % 5 - 2) / 2.0 for k in range(n)] for i in range(m)])
    b = np.array([[((2 * i + 3 * k + 1) % 4 - 1.5) / 2.0 for k in range(n)] for i in range(m)])
    return a, b


def ridge_pairs(m, v):
    return [PAIRS[(v * m + i) % len(PAIRS)] for i in range(m)]


def make_vector_fun(spec, m, n):
    """f: (n,) -> (m,)  (works for complex x)"""
    if spec[0] == 'affine':
        A, b = affine_A(m, n)
        return lambda x: A @ x + b
    a, b = ridge_coef(m, n)
    prs = ridge_pairs(m, spec[1])
    gs = [NP_FUN[g] for g, _ in prs]
    hs = [NP_FUN[h] for _, h in prs]

    def f(x):
        s = a @ x
        t = b @ x
        return np.array([gs[i](s[i]) * hs[i](t[i]) for i in range(m)])
    return f


def make_scalar_fun(spec, n):
    """f: (n,) -> scalar: component 0 of the m = 1 map, returned as a 0-d value"""
    fv = make_vector_fun(spec, 1, n)
    return lambda x: fv(x)[0]


_ORC = {}


def closed_form(spec, m, n, pt):
    """dict with c[i][j] = Taylor coefficients (floats) of tau -> f_i(x + tau e_j), Jabs, cond2
    (second-derivative conditioning of J_ij wrt the rounding of a.x, b.x), N[i] (absolute
    evaluation noise of f_i in units of eps)."""
    key = (tuple(spec), m, n, pt)
    if key in _ORC:
        return _ORC[key]
    x = POINTS[pt][:n]
    xm = [mp.mpf(v) for v in x]
    c = [[None] * n for _ in range(m)]
    Jabs = np.zeros((m, n))
    cond2 = np.zeros((m, n))
    N = np.zeros(m)
    if spec[0] == 'affine':
        A, b = affine_A(m, n)
        for i in range(m):
            val = sum(mp.mpf(A[i, k]) * xm[k] for k in range(n)) + mp.mpf(b[i])
            N[i] = (n + 1) * (sum(abs(A[i, k] * x[k]) for k in range(n)) + abs(b[i]))
            for j in range(n):
                c[i][j] = [float(val), float(A[i, j])] + [0.0] * (K - 2)
                Jabs[i, j] = abs(A[i, j])
    else:
        a, b = ridge_coef(m, n)
        prs = ridge_pairs(m, spec[1])
        for i in range(m):
            s0 = sum(mp.mpf(a[i, k]) * xm[k] for k in range(n))
            t0 = sum(mp.mpf(b[i, k]) * xm[k] for k in range(n))
            G = JET_FUN[prs[i][0]](jets.var(s0, K))
            H = JET_FUN[prs[i][1]](jets.var(t0, K))
            g0, g1, g2 = abs(G[0]), abs(G[1]), 2 * abs(G[2])
            h0, h1, h2 = abs(H[0]), abs(H[1]), 2 * abs(H[2])
            sa = sum(abs(a[i, k] * x[k]) for k in range(n))
            sb = sum(abs(b[i, k] * x[k]) for k in range(n))
            N[i] = float((n + 1) * (sa * g1 * h0 + sb * g0 * h1) + 4 * g0 * h0)
            for j in range(n):
                aj, bj = mp.mpf(a[i, j]), mp.mpf(b[i, j])
                gj = [G[k] * aj ** k for k in range(K)]
                hj = [H[k] * bj ** k for k in range(K)]
                c[i][j] = [float(v) for v in jets.mul(gj, hj)]
                Jabs[i, j] = float(abs(aj) * g1 * h0 + abs(bj) * g0 * h1)
                cond2[i, j] = float((n + 1) * (sa * (abs(aj) * g2 * h0 + abs(bj) * g1 * h1)
                                               + sb * (abs(aj) * g1 * h1 + abs(bj) * g0 * h2)))
    out = dict(c=c, Jabs=Jabs, cond2=cond2, N=N,
               J=np.array([[c[i][j][1] for j in range(n)] for i in range(m)]))
    _ORC[key] = out
    return out


def nominal_step(method, step, xj):
    """documented (scipy) absolute step size: rel_step*|x|, or the automatic sqrt(eps) resp.
    eps^(1/3) times max(1, |x|) when no step is given or the relative step vanishes (x = 0)"""
    auto = (EPS ** 0.5 if method in ('forward', 'complex') else EPS ** (1.0 / 3)) * max(1.0, abs(xj))
    if step is None or xj == 0:
        return auto
    return step * abs(xj)


def truncation_majorant(method, coef, h):
    """sum_k w_k |c_k| h^(k-1) over the documented schemes of the method:
    forward/backward quotient w_k = 1 (k >= 2); central w_k = [k odd], 3-point one-sided
    w_k = |4 - 2^k|/2 (k >= 3) - the larger of the two; complex step w_k = [k odd] (k >= 3).
    returns (T, resolved)"""
    T = 0.0
    last = 0.0
    for k in range(2, K):
        if method == 'forward':
            w = 1.0
        elif method == 'central':
            w = 0.0 if k < 3 else max(1.0 if k % 2 else 0.0, abs(4 - 2 ** k) / 2.0)
        else:
            w = 1.0 if (k >= 3 and k % 2) else 0.0
        last = w * abs(coef[k]) * h ** (k - 1)
        T += last
    w_tail = abs(coef[K - 1]) * (2 * h) ** (K - 2)
    return T, w_tail <= 1e-8 * (T + abs(coef[1]) * EPS)


def allowance(method, orc, n, x, step):
    """(allow[m, n], resolved[m, n], h[n])"""
    m = orc['J'].shape[0]
    allow = np.zeros((m, n))
    res = np.ones((m, n), dtype=bool)
    hs = np.array([nominal_step(method, step, x[j]) for j in range(n)])
    for i in range(m):
        for j in range(n):
            T, ok = truncation_majorant(method, orc['c'][i][j], hs[j])
            res[i, j] = ok
            if method == 'complex':
                allow[i, j] = 2 * T + 1e2 * EPS * (orc['Jabs'][i, j] + orc['cond2'][i, j])
            else:
                allow[i, j] = 2 * T + 1e3 * (EPS_M[method] * orc['Jabs'][i, j] + EPS * orc['N'][i] / hs[j])
    return allow, res, hs


# ---------------------------------------------------------------------------------------------
# bounds

BOUND_KINDS = ['none', 'inside', 'lower-face', 'upper-face', 'corner', 'degenerate', 'hairline', 'half-open']


def make_bounds(kind, x, j0):
    """boxes around x.  Every non-degenerate coordinate keeps room >= 0.5*max(1,|x|) on at least one
    side, far more than twice the largest nominal step (1e-2|x|), so the documented step size never
    has to shrink; 'inside' puts coordinate j0 within 1e-3*max(1,|x|) of a bound (strictly inside)."""
    x = np.asarray(x, dtype=float)
    n = len(x)
    if kind == 'none':
        return None
    X = np.maximum(1.0, np.abs(x))
    lb = x - 0.5 * X
    ub = x + 0.75 * X
    if kind == 'inside':
        if j0 % 2:
            lb[j0] = x[j0] - 1e-3 * X[j0]
        else:
            ub[j0] = x[j0] + 1e-3 * X[j0]
    elif kind == 'hairline':
        # strictly inside, but closer to a bound than any step: the scheme has to turn to the other side, the
        # documented step size is kept (it only shrinks if neither side has room)
        if j0 % 2:
            lb[j0] = x[j0] - 1e-12 * X[j0]
        else:
            ub[j0] = x[j0] + 1e-12 * X[j0]
    elif kind == 'half-open':
        # a box with some infinite sides: even coordinates are only bounded above, odd ones only below;
        # coordinate j0 sits on its finite side
        for j in range(n):
            if j % 2 == 0:
                lb[j] = -np.inf
            else:
                ub[j] = np.inf
        if j0 % 2 == 0:
            ub[j0] = x[j0]
        else:
            lb[j0] = x[j0]
    elif kind == 'lower-face':
        lb[j0] = x[j0]
    elif kind == 'upper-face':
        ub[j0] = x[j0]
    elif kind == 'corner':
        for j in range(n):
            if (j + j0) % 2:
                lb[j] = x[j]
            else:
                ub[j] = x[j]
    elif kind == 'degenerate':
        lb[j0] = x[j0]
        ub[j0] = x[j0]
    return lb, ub


# ---------------------------------------------------------------------------------------------
# one call

class Sentinel(object):
    def __init__(self, name):
        self.name = name

    def __repr__(self):
        return '<sentinel %s>' % self.name


def extras(variant):
    """0: nothing, 1: args and kwds, 2: args only, 3: kwds only, 4: ONE positional argument that is itself a tuple,
    5: a (tuple, dict) pair of positional arguments (the call signature is (x, *args, **kwds): what f receives is
    exactly what the call received, whatever its form)"""
    if variant == 4:
        return ((Sentinel('arg0'), Sentinel('arg1')),), {}
    if variant == 5:
        return ((Sentinel('arg0'),), {'alpha': Sentinel('alpha')}), {}
    args = (Sentinel('arg0'), Sentinel('arg1')) if variant in (1, 2) else ()
    kwds = {'alpha': Sentinel('alpha'), 'beta': Sentinel('beta')} if variant in (1, 3) else {}
    if variant == 1:
        # keyword arguments of f whose names coincide with option names of the wrapper are f's, not the wrapper's
        kwds.update(bounds=Sentinel('bounds'), method=Sentinel('method'), step=Sentinel('step'))
    return args, kwds


class Recorder(object):
    def __init__(self, fn):
        self.fn = fn
        self.calls = []

    def __call__(self, x, *args, **kwds):
        self.calls.append((np.array(x, copy=True), args, dict(kwds)))
        return self.fn(x)


def run_one(case):
    """case: dict(api, n, m, map, pt, method, step, bounds, j0, extras[, xshape]).
    Returns (problems [(key, text)], info)"""
    import numdifftools.nd_scipy as nds
    api, n, m = case['api'], case['n'], case['m']
    spec = tuple(case['map'])
    method, step, bkind, j0 = case['method'], case['step'], case['bounds'], case['j0']
    x = np.array(POINTS[case['pt']][:n], dtype=float)
    orc = closed_form(spec, m, n, case['pt'])
    allow, resolved, hs = allowance(method, orc, n, x, step)
    box = make_bounds(bkind, x, j0)
    args, kwds = extras(case['extras'])
    rec = Recorder(make_vector_fun(spec, m, n) if api == 'Jacobian' else make_scalar_fun(spec, n))
    kw = {}
    if box is not None:
        # the container of the pair (lower, upper) rotates with the case: a tuple, a list, a (2, n) array (scipy's own
        # examples use all three)
        form = (n + m + j0 + case['pt']) % 3
        pair = (box[0].copy(), box[1].copy())
        kw['bounds'] = pair if form == 0 else (list(pair) if form == 1 else np.array(pair))
    if api == 'Jacobian':
        xin = x.copy()
        want_shape = (m, n)
    else:
        shp = case['xshape']
        xin = float(x[0]) if shp == 'float' else x.copy().reshape(tuple(shp))
        want_shape = (n,) if n > 1 else ()
    if case['pt'] in INT_POINTS:
        # the same point with integer dtype (a list of Python ints / np.arange is ordinary use)
        xin = int(xin) if isinstance(xin, float) else xin.astype(np.int64)
    degenerate_real = bkind == 'degenerate' and method != 'complex'
    info = dict(ratio=None, nontrivial=False, raised=None, evals=0, off_nominal=0)
    # non-triviality from oracle-side quantities only: some entry of the closed-form Jacobian can
    # be told from 0 / its negative / a 25 % error
    live = resolved & (np.abs(orc['J']) > 0)
    if degenerate_real:
        live[:, j0] = False
    info['nontrivial'] = bool(np.any(live & (allow <= 0.25 * np.abs(orc['J']))))
    probs = []
    tag = '%s:%s' % (api, method)
    try:
        with warnings.catch_warnings():
            warnings.simplefilter('ignore')
            with np.errstate(all='ignore'):
                # built positionally (fun, step, method) for the tuple-valued extras variants, by keyword otherwise
                obj = (getattr(nds, api)(rec, step, method, **kw) if case['extras'] in (4, 5) else
                       getattr(nds, api)(rec, step=step, method=method, **kw))
                out = obj(xin, *args, **kwds)
    except Exception as ex:
        info['raised'] = type(ex).__name__
        info['evals'] = len(rec.calls)
        if degenerate_real and isinstance(ex, (ValueError, ArithmeticError)):
            out = None           # scipy may refuse a coordinate in which no real step fits
        else:
            return [('C19:%s:raised-%s:bounds=%s' % (tag, type(ex).__name__, bkind),
                     '%s raised %s: %s' % (api, type(ex).__name__, ex))], info
    info['evals'] = len(rec.calls)

    # ---- every evaluation: forwarded extras, real part inside the box
    bad_args = bad_kw = bad_box = None
    for xe, a_, k_ in rec.calls:
        if bad_args is None and not (len(a_) == len(args) and all(p is q for p, q in zip(a_, args))):
            bad_args = 'f received args %r, sent %r' % (a_, args)
        if bad_kw is None and not (set(k_) == set(kwds) and all(k_[k] is kwds[k] for k in kwds)):
            bad_kw = 'f received kwds %r, sent %r' % (k_, kwds)
        if box is not None and bad_box is None:
            xr = np.real(np.asarray(xe)).ravel()
            if xr.shape != (n,) or not (np.all(xr >= box[0]) and np.all(xr <= box[1])):
                bad_box = 'f evaluated at %r, box [%r, %r], x = %r' % (
                    np.asarray(xe).tolist(), box[0].tolist(), box[1].tolist(), x.tolist())
    # reported, not enforced: do the recorded offsets agree with the nominal step the allowance uses?
    off = 0
    for xe, _, _ in rec.calls:
        d = np.asarray(xe).ravel() - x
        nz = np.flatnonzero(d != 0)
        if len(nz) == 0:
            continue
        j = int(nz[0])
        mult = abs(d[j]) / hs[j]
        if len(nz) > 1 or min(abs(mult - 1), abs(mult - 2)) > 1e-6:
            off += 1
    info['off_nominal'] = off
    if bad_args:
        probs.append(('C19:%s:args-not-forwarded' % api, bad_args))
    if bad_kw:
        probs.append(('C19:%s:kwds-not-forwarded' % api, bad_kw))
    if bad_box:
        probs.append(('C19:%s:evaluation-outside-box:bounds=%s' % (tag, bkind), bad_box))
    if not rec.calls:
        probs.append(('C19:%s:f-never-called' % api, 'the user function was not evaluated'))
    if out is None:
        return probs, info

    # ---- shape
    out = np.asarray(out)
    if out.shape != want_shape:
        if api == 'Jacobian' and m == 1 and out.shape == (n,):
            probs.append(('C19:Jacobian:shape:m=1-vector-valued-f-gives-(n,)-not-(1,n)',
                          'Jacobian of a length-1 vector-valued f at x of length %d has shape %r, expected (1, %d)'
                          % (n, out.shape, n)))
            out = out.reshape(1, n)
        else:
            what = 'Jacobian:shape:m=%s' % ('1' if m == 1 else '>1') if api == 'Jacobian' else \
                'Gradient:shape:x=%s' % ('float' if case['xshape'] == 'float' else '%d-d' % len(case['xshape']))
            probs.append(('C19:' + what, '%s returned shape %r, expected %r' % (api, out.shape, want_shape)))
            if out.size != m * n:
                return probs, info
    got = out.reshape(m, n)
    if np.iscomplexobj(got):
        probs.append(('C19:%s:complex-result' % tag, 'result has dtype %s' % got.dtype))
        got = got.real

    # ---- values
    err = np.abs(got - orc['J'])
    check = resolved.copy()
    if degenerate_real:
        check[:, j0] = False        # no real step fits: column unconstrained (see rule)
    with np.errstate(all='ignore'):
        ratio = np.where(check, err / allow, 0.0)
    bad = check & ~(err <= allow)
    if np.any(check):
        info['ratio'] = float(np.nanmax(ratio)) if not np.all(np.isnan(ratio)) else float('inf')
    if np.any(bad):
        i, j = [int(v) for v in np.argwhere(bad)[0]]
        cls = 'affine' if spec[0] == 'affine' else 'ridge'
        bcls = {'none': 'no-bounds', 'inside': 'interior', 'hairline': 'interior-hairline'}.get(bkind, 'x-on-boundary')
        probs.append(('C19:%s:value:%s:%s-step:%s' % (tag, cls, 'auto' if step is None else 'user', bcls),
                      '%s entry (%d, %d) = %r, closed form %r, error %.3g > allowance %.3g (nominal step %.3g; '
                      '%d of %d entries off)' % (api, i, j, float(got[i, j]), float(orc['J'][i, j]),
                                                 float(err[i, j]), float(allow[i, j]), hs[j],
                                                 int(bad.sum()), int(check.sum()))))
    return probs, info


# ---------------------------------------------------------------------------------------------
# enumeration

def bound_variants(n, m, full):
    out = [('none', 0)]
    j0s = range(n) if full else [(n + m) % n]
    for kind in ('inside', 'lower-face', 'upper-face', 'degenerate', 'hairline', 'half-open'):
        out += [(kind, j) for j in j0s]
    out += [('corner', p) for p in ((0, 1) if full else ((n + m) % 2,))]
    return out


def xshapes(n):
    if n == 1:
        return ['float', [], [1], [1, 1]]
    s = [[n], [1, n], [n, 1]]
    if n >= 4 and n % 2 == 0:
        s.append([2, n // 2])
    return s


def unit_cases(unit, full):
    api, n, m, spec, pt = unit
    ex = (0, 1, 2, 3, 4, 5) if full else (0, 1, 4, 5)
    if api == 'Jacobian':
        for method in METHODS:
            for step in STEPS:
                for kind, j0 in bound_variants(n, m, full):
                    for e in ex:
                        yield dict(api=api, n=n, m=m, map=list(spec), pt=pt, method=method, step=step,
                                   bounds=kind, j0=j0, extras=e)
    else:
        for shp in xshapes(n):
            for method in METHODS:
                for step in STEPS:
                    for kind, j0 in (('none', 0), ('inside', (n + 1) % n), ('corner', n % 2), ('hairline', 0), ('half-open', (n + 1) % n)):
                        for e in (0, 1, 4):
                            yield dict(api=api, n=n, m=1, map=list(spec), pt=pt, method=method, step=step,
                                       bounds=kind, j0=j0, extras=e, xshape=shp)


def step_name(step):
    return 'auto' if step is None else repr(step)


def work(chunk, full=False):
    acc = fw.Acc()
    for unit in chunk:
        for case in unit_cases(unit, full):
            probs, info = run_one(case)
            api, n, m, method = case['api'], case['n'], case['m'], case['method']
            cls = case['map'][0]
            a = api[0]
            cells = ['%s:%s:step=%s:bounds=%s' % (a, method, step_name(case['step']), case['bounds']),
                     '%s:n=%d' % (a, n), '%s:%s' % (a, cls), '%s:extras=%d' % (a, case['extras'])]
            if api == 'Jacobian':
                cells.append('J:m=%d' % m)
                if cls == 'ridge':
                    cells += ['J:pair=%s*%s' % p for p in ridge_pairs(m, case['map'][1])]
            else:
                shp = case['xshape']
                cells.append('G:x=%s' % ('float' if shp == 'float' else '%d-d' % len(shp)))
            r = info['ratio']
            acc.case(tuple(sorted((k, repr(v)) for k, v in case.items())), nontrivial=info['nontrivial'],
                     cell=cells, outcome=(info['raised'], tuple(k for k, _ in probs),
                                          None if r is None else '%.2g' % r))
            acc.count('f-evaluations-recorded', info['evals'])
            if case['bounds'] != 'none':
                acc.count('f-evaluations-checked-against-a-box', info['evals'])
            acc.count('f-evaluations whose offset from x is not 1 or 2 nominal steps in one coordinate (reported only)',
                      info.get('off_nominal', 0))
            if case['bounds'] == 'degenerate' and method != 'complex':
                acc.count('degenerate real-step: ' + ('raised ' + info['raised'] if info['raised']
                                                      else 'returned (column unconstrained)'))
            if r is not None:
                acc.maxi('worst error/allowance  %s %s %s %s-step' % (
                    api, method, cls, 'auto' if case['step'] is None else 'user'), r)
            rank = n * 1000 + m * 100 + (0 if cls == 'affine' else 50) + BOUND_KINDS.index(case['bounds']) * 5 \
                + case['extras']
            for key, text in probs:
                # keep the replay artefact of any other finding free of the m = 1 shape finding
                acc.violation(key, case, text,
                              rank=rank + (100000 if (api == 'Jacobian' and m == 1 and ':shape:m=1-' not in key) else 0))
    return acc


def build_units(ctx):
    full = not ctx.quick
    pts = [0, 1, 2, 3] if full else [ctx.seed % 2, 2, 3]
    units = []
    for n in range(1, 7):
        for m in range(1, 6):
            nvar = -(-len(PAIRS) // m)
            vs = list(range(nvar)) if full else ctx.rotate(list(range(nvar)), 2)
            for pt in pts:
                units.append(('Jacobian', n, m, ('affine',), pt))
                for v in vs:
                    units.append(('Jacobian', n, m, ('ridge', v), pt))
        gv = list(range(len(PAIRS))) if full else ctx.rotate(list(range(len(PAIRS))), 3)
        for pt in pts:
            units.append(('Gradient', n, 1, ('affine',), pt))
            for v in gv:
                units.append(('Gradient', n, 1, ('ridge', v), pt))
    return units, full


# ---------------------------------------------------------------------------------------------
# two-step histories on REUSED wrapper objects: the same Jacobian / Gradient instance called again at
# the same or another x with the same or other extra arguments must behave like a first call

def _hist_f(x, scale, shift=0.0):
    x = np.asarray(x)
    return scale * np.array([x[0] * x[1] + np.exp(0.5 * x[0]), np.sin(x[1]) - x[0]]) + shift


def _hist_g(x, scale, shift=0.0):
    x = np.asarray(x)
    return scale * (x[0] * x[1] + np.exp(0.5 * x[0])) + shift


def history_cases():
    out = []
    for api in ('Jacobian', 'Gradient'):
        for method in ('forward', 'central', 'complex'):
            for bk in ('none', 'lower'):
                for xv in ((0.7, -1.3), (0.25, 1.9)):
                    for extras in ((1.0, 0.0), (2.5, -1.0)):
                        out.append((api, method, bk, xv, extras))
    return out


def history_run(case, shared):
    import numdifftools.nd_scipy as nds
    api, method, bk, xv, extras = case
    key = (api, method, bk)
    if key not in shared:
        bounds = (-np.inf, np.inf) if bk == 'none' else (np.array([0.25, -1.3]), np.array([5.0, 5.0]))
        shared[key] = getattr(nds, api)(_hist_f if api == 'Jacobian' else _hist_g, method=method, bounds=bounds)
    try:
        return fw.obs(shared[key](np.array(xv), extras[0], shift=extras[1]))
    except Exception as e:
        return fw.obs(e)


def work_history(chunk):
    acc = fw.Acc()
    fw.pair_histories(acc, 'C19', 'wrapper-object-reuse', history_cases(), history_run)
    reentrant(acc)
    return acc


def reentrant(acc):
    """f itself uses the SAME wrapper object with other extra arguments (e.g. a recursive model definition): every
    evaluation of the outer call must receive the outer call's extras, and the outer result must be bit-identical to
    the call without the inner one."""
    import numdifftools.nd_scipy as nds
    x = np.array([0.7, -1.3])
    for api, method, inner in [(a, m, i) for a in ('Jacobian', 'Gradient') for m in ('forward', 'central', 'complex')
                               for i in ('same-object', 'other-object')]:
        if True:
            st = {'depth': 0, 'n': 0, 'bad': 0, 'nest': True}
            # 'other-object': f uses ANOTHER wrapper object (other method, a step, no bounds) during its very first evaluation
            nest_at = 2 if inner == 'same-object' else 1
            other_method = {'forward': 'complex', 'central': 'forward', 'complex': 'central'}[method]
            base = _hist_f if api == 'Jacobian' else _hist_g

            def f(t, scale, shift=0.0, st=st, base=base):
                want = (2.5, -1.0) if st['depth'] == 0 else (1.0, 0.0)
                if st['depth'] == 0:
                    st['n'] += 1
                if (scale, shift) != want:
                    st['bad'] += 1
                if st['nest'] and st['depth'] == 0 and st['n'] == nest_at:
                    st['depth'] = 1
                    try:
                        (obj if inner == 'same-object' else other)(x, 1.0, shift=0.0)
                    finally:
                        st['depth'] = 0
                return base(t, scale, shift)
            case = dict(kind='reentrant', api=api, method=method)
            if inner != 'same-object':
                case['inner'] = inner
            box = (np.array([-5.0, -5.0]), np.array([0.7, 5.0]))      # x sits on the upper bound of its first coordinate
            try:
                other = getattr(nds, api)(f, method=other_method, step=1e-2)
                obj = getattr(nds, api)(f, method=method, bounds=box) if inner != 'same-object' else getattr(nds, api)(f, method=method)
                nested = fw.obs(obj(x, 2.5, shift=-1.0))
                bad, nev = st['bad'], st['n']
                st.update(depth=0, n=0, bad=0, nest=False)
                obj = getattr(nds, api)(f, method=method, bounds=box) if inner != 'same-object' else getattr(nds, api)(f, method=method)
                plain = fw.obs(obj(x, 2.5, shift=-1.0))
                prob = None
                if bad:
                    prob = '%d of the %d evaluations of the outer call did not receive its extra arguments' % (bad, nev)
                elif nested != plain:
                    prob = 'the result differs from the same call without the inner one'
            except Exception as e:      # noqa: BLE001
                prob = 'raised %s: %s' % (type(e).__name__, e)
            acc.case(('reentrant', api, method, inner), nontrivial=True, cell='history/reentrant', outcome=prob is None)
            if prob:
                acc.violation('C19:%s:%s:reentrant-extra-arguments%s' % (api, method, '' if inner == 'same-object' else ':' + inner), case,
                              'nd_scipy.%s(f, method=%r), f calling %s with other extras: %s'
                              % (api, method, 'the same object' if inner == 'same-object' else
                                 'another %s object (method=%r, step=1e-2, unbounded)' % (api, other_method), prob), 1)


def run(ctx):
    units, full = build_units(ctx)
    acc = ctx.pmap(work, units, chunk=1, full=full)
    acc.merge(ctx.pmap(work_history, [0], chunk=1))

    for case in (dict(api='Jacobian', n=3, m=2, map=['affine'], pt=0, method='complex', step=None, bounds='none',
                      j0=0, extras=1),
                 dict(api='Jacobian', n=2, m=1, map=['ridge', 0], pt=0, method='central', step=1e-2,
                      bounds='corner', j0=0, extras=0),
                 dict(api='Jacobian', n=4, m=3, map=['ridge', 5], pt=0, method='forward', step=1e-4,
                      bounds='degenerate', j0=1, extras=1),
                 dict(api='Gradient', n=4, m=1, map=['ridge', 7], pt=0, method='central', step=None,
                      bounds='inside', j0=1, extras=1, xshape=[2, 2])):
        probs, info = run_one(case)
        s = dict(case)
        s.update(pairs=(ridge_pairs(case['m'], case['map'][1]) if case['map'][0] == 'ridge' else None),
                 closed_form_J=closed_form(tuple(case['map']), case['m'], case['n'], case['pt'])['J'].tolist(),
                 worst_error_over_allowance=info['ratio'], f_evaluations=info['evals'],
                 findings=[k for k, _ in probs])
        acc.sample(s)

    req = ['J:%s:step=%s:bounds=%s' % (mth, step_name(s), b) for mth in METHODS for s in STEPS for b in BOUND_KINDS]
    req += ['G:%s:step=%s:bounds=%s' % (mth, step_name(s), b) for mth in METHODS for s in STEPS
            for b in ('none', 'inside', 'corner', 'hairline', 'half-open')]
    req += ['J:n=%d' % n for n in range(1, 7)] + ['G:n=%d' % n for n in range(1, 7)]
    req += ['J:m=%d' % m for m in range(1, 6)] + ['J:affine', 'J:ridge', 'G:affine', 'G:ridge',
                                                   'J:extras=0', 'J:extras=1', 'G:extras=0', 'G:extras=1', 'J:extras=4', 'J:extras=5', 'G:extras=4',
                                                   'G:x=float', 'G:x=0-d', 'G:x=1-d', 'G:x=2-d']
    req += ['history/wrapper-object-reuse', 'history/reentrant']
    if full:
        req += ['J:pair=%s*%s' % p for p in PAIRS] + ['J:extras=2', 'J:extras=3']
    rule = (
        'nd_scipy.Jacobian: n 1..6 x m 1..5 x {affine A x + b with A_ik = ((3i+5k+1) mod 7) - 2.5, ridge maps f_i = '
        'g_i(a_i.x) h_i(b_i.x), g, h from {exp, sin, cosh, arctan, t^2, 1/(2+t^2)}; %s} x %s x methods {central, '
        'forward, complex} x step {None, 1e-4, 1e-2} x bounds {none, inside (one coordinate within 1e-3 of a bound), x '
        'on a lower face, on an upper face, on a corner (every coordinate on a face), degenerate lb = ub = x in one '
        'coordinate}%s x forwarded extras {none, args+kwds%s} (identity-checked sentinel objects); f always returns '
        'shape (m,), also for m = 1.  nd_scipy.Gradient: scalar f (component 0 of the m = 1 maps) x n 1..6 x x given '
        'as float / 0-d / (n,) / (1,n) / (n,1) / (2,n/2) x methods x steps x bounds {none, inside, corner} x extras.  '
        'Oracle: J_ij = first Taylor coefficient c_1 of tau -> f_i(x + tau e_j) from 60-digit one-dimensional jets.  '
        'Required: result shape exactly (m, n) (Gradient: (n,), 0-d for n = 1); |result_ij - J_ij| <= allowance_ij '
        'with, for forward/central, allowance = 2 T_ij + 1e3*eps_m*scale_ij, eps_m = eps^(1/2) (forward) resp. '
        'eps^(2/3) (central), scale_ij = Jabs_ij + (eps/eps_m) * N_i/|h_j|; for complex allowance = 2 T_ij + '
        '1e2*eps*(Jabs_ij + C_ij) (on affine maps T = C = 0, i.e. exact to 1e2*eps*|A_ij|).  Here h_j is the '
        'documented nominal step (rel_step*|x_j|; automatic sqrt(eps) resp. eps^(1/3) times max(1,|x_j|) when step is '
        'None or x_j = 0; the boxes leave room >= 0.5*max(1,|x_j|) on one side so the documented rule "the step '
        'shrinks only if neither a sign flip nor a one-sided scheme fits" never shrinks it); T_ij = sum_{k<%d} w_k '
        '|c_k| |h_j|^(k-1) majorises the truncation error of every documented scheme of the method (two-point '
        'quotient w_k = 1, k >= 2; central w_k = [k odd] and 3-point one-sided w_k = |4-2^k|/2, k >= 3; complex step '
        'w_k = [k odd], k >= 3); Jabs_ij = |a_ij g\'h| + |b_ij g h\'| (|A_ij| affine) is the size of the terms summed '
        'in J_ij; N_i = (n+1)(sum_k|a_ik x_k| |g\'h| + sum_k|b_ik x_k| |g h\'|) + 4|g h| (affine: (n+1)(sum|A_ik x_k| + '
        '|b_i|)) is the first-order evaluation noise of f_i in units of eps, which a difference quotient divides by '
        'h; C_ij is the same propagation of the rounding of a.x, b.x into g\'h, gh\' (second derivatives).  One '
        'sentence: a difference quotient at step h cannot be better than truncation T plus eps*N/h, and at the '
        'automatic step both are eps_m times the local size, so 1e3*eps_m*scale is three decades of margin over the '
        'optimum while 2T keeps user steps honest.  Every recorded call of f must carry exactly the sentinel '
        'args/kwds (identity) and have the real part of its argument inside [lb, ub] with exact float comparison.  '
        'Degenerate coordinate j0 (lb = ub = x): scipy documents that steps are adjusted to fit into the bounds, and '
        'no non-zero real step fits, so for central/forward column j0 is unconstrained and a ValueError / '
        'ArithmeticError from scipy is accepted (both outcomes counted); everything else (box, forwarding, shape if '
        'a result is returned, the other columns) is still demanded; the complex method steps in the imaginary '
        'direction and must be accurate in every column.  Non-trivial = some checked entry has allowance <= |J_ij|/4.'
        % ('all 36 ordered (g, h) pairs for every m' if full else '2 seed-rotated ridge variants per (n, m)',
           '2 points (one with a zero coordinate)' if full else '1 seed-chosen point of 2',
           ' (every choice of the special coordinate, both corner parities)' if full else '',
           ', args only, kwds only' if full else '', K))
    return fw.finish(ctx, acc, LEVEL, rule, exhaustive=True, required_cells=req,
                     assumptions=['scipy.optimize._numdiff.approx_derivative behaves as its docstring says for the '
                                  'nominal step and the bounds adjustment (the oracle takes the nominal step from '
                                  'the docstring, not from the recorded points)',
                                  'numpy elementary functions are accurate to a few ulp also for complex arguments',
                                  'Jacobian is exercised with vector-valued f only (shape (m,)), Gradient with '
                                  'scalar-valued f only; the method "backward" and the ignored "order" option are '
                                  'outside the property'])


def replay(case):
    if case.get('kind') == 'reentrant':
        a = fw.Acc()
        reentrant(a)
        bad = [r['detail'] for k, (n, recs) in a.viol.items() for r in recs if r['case'].get('api') == case['api']
               and r['case'].get('method') == case['method']]
        return not bad, '%r -> %s' % (case, bad or 'ok')
    if case.get('kind') == 'history':
        cs = history_cases()
        a, b = cs[case['i']], cs[case['j']]
        fw.fresh_library_state()
        alone = history_run(b, {})
        sh = {}
        history_run(a, sh)
        got = history_run(b, sh)
        return got == alone, 'history %r then %r: %s' % (a, b, 'same' if got == alone else 'differs from the call alone')
    case = dict(case)
    case['map'] = [case['map'][0]] + [int(v) for v in case['map'][1:]]
    probs, info = run_one(case)
    return not probs, 'case=%r -> %s (worst error/allowance %r)' % (case, probs or 'ok', info['ratio'])
