"""C18 - Limit and Residue recover removable singularities and poles (DESIGN 5/C18).

E1: full product g x kernel x z0 x method x path x order x step_ratio on the real Limit/Residue,
arrays mixing singular and regular points in every position pattern.  Oracle: g(z0) in mpmath.
"""
import cmath
import itertools
import math
import os
import warnings

import mpmath as mp
import numpy as np

from mc import framework as fw
from mc.props import c01_common as cm

LEVEL = 'exploration'
EPS = np.finfo(float).eps
CALIBRATE = bool(os.environ.get('VERIF_CALIBRATE'))

G = {
    'one': (lambda z: 1.0 + 0 * z, lambda z: mp.mpf(1) + 0 * z),
    'exp': (np.exp, mp.exp),
    '2+cos': (lambda z: 2 + np.cos(z), lambda z: 2 + mp.cos(z)),
    '1/(2+z)': (lambda z: 1 / (2 + z), lambda z: 1 / (2 + z)),
    'poly': (lambda z: 1 + z + z * z, lambda z: 1 + z + z * z),
}
KERNELS = {
    'sin(w)/w': lambda w: np.sin(w) / w,
    'expm1(w)/w': lambda w: np.expm1(w) / w,
    'log1p(w)/w': lambda w: np.log1p(w) / w,
    'w/sin(w)': lambda w: w / np.sin(w),
    'tan(w)/w': lambda w: np.tan(w) / w,
    'sinc2': lambda w: (np.sin(w / 2) / (w / 2)) ** 2,
}
Z0 = [-3.0, -0.5, 0.0, 1.0, math.pi, 0.3 + 0.2j, 1j, 0.9 + 0.9j]
METHODS = ['above', 'below']
PATHS = ['radial', 'spiral']
ORDERS = list(range(1, 9))
RATIOS = [2, 4, 8, 16]


def gexact(gname, z0):
    with mp.workdps(40):
        v = G[gname][1](mp.mpmathify(z0))
        return complex(v)


def make_f(gname, kname, z0):
    g, s = G[gname][0], KERNELS[kname]

    def f(z):
        return g(z) * s(z - z0)
    return f


def run_limit(gname, kname, z0, method, path, order, ratio, residue_p=None):
    from numdifftools.limits import Limit, Residue
    with warnings.catch_warnings():
        warnings.simplefilter('ignore')
        with np.errstate(all='ignore'):
            if residue_p is None:
                f = make_f(gname, kname, z0)
                # even orders are handed over as numpy integers
                obj = Limit(f, method=method, order=order if order % 2 else np.int64(order), full_output=True, path=path,
                            step_ratio=ratio)
            else:
                g = G[gname][0]
                p = residue_p

                def f(z):
                    return g(z) / (z - z0) ** p
                obj = Residue(f, method=method, order=order, pole_order=p, full_output=True, path=path,
                              step_ratio=ratio)
            if order % 2 == 0:
                import copy
                obj = copy.deepcopy(obj)       # even orders: used through a deep copy (an equal object)
            val, info = obj(z0)
    return val, info


def judge(val, info, exact, shape_expected=None):
    """returns (err, est, problem)"""
    v = np.asarray(val)
    e = np.asarray(info.error_estimate)
    if v.size != 1 or e.size != 1:
        return None, None, ('shape', 'value shape %r, estimate shape %r for a scalar point' % (v.shape, e.shape))
    v = complex(v.ravel()[0])
    e = float(np.abs(e.ravel()[0]))
    err = abs(v - exact)
    return err, e, None


def case_key(kind, kname, z0, path, order, ratio):
    zc = 'complex-z0' if isinstance(z0, complex) else 'real-z0'
    return 'C18:%s:%s:%s:%s:order=%d:ratio=%d' % (kind, 'kernel=' + kname if kind == 'Limit' else 'pole', zc, path, order, ratio)


def work(chunk):
    acc = fw.Acc()
    for job in chunk:
        kind = job[0]
        if kind == 'limit':
            _, gname, kname, z0, method, path, order, ratio = job
            p = None
        else:
            _, gname, p, z0, method, path, order, ratio = job
            kname = 'pole%d' % p
        exact = gexact(gname, z0)
        jc = dict(kind=kind, g=gname, kernel=kname, z0=z0, method=method, path=path, order=order, ratio=ratio, p=p)
        cell = ['%s/%s/%s' % (kind, kname, path), '%s/%s' % (kind, 'complex-z0' if isinstance(z0, complex) else 'real-z0'),
                '%s/%s' % (kind, method)]
        try:
            val, info = run_limit(gname, kname, z0, method, path, order, ratio, residue_p=p)
        except Exception as e:
            acc.case(job, nontrivial=True, cell=cell, outcome='raised')
            acc.violation('C18:%s:raised-%s:%s' % (kind, type(e).__name__, path), jc, '%s: %s' % (type(e).__name__, e),
                          rank=order * 100 + ratio)
            continue
        err, est, prob = judge(val, info, exact)
        if prob:
            acc.case(job, nontrivial=True, cell=cell, outcome=prob[0])
            acc.violation('C18:%s:%s' % (kind, prob[0]), jc, prob[1], rank=order * 100 + ratio)
            continue
        scale = abs(exact) + 1.0
        if CALIBRATE:
            floor = 1e3 * EPS * scale
            k = max(err - floor, 0.0) / est if est > 0 else (0.0 if err <= floor else float('inf'))
            acc.maxi('K/%s/order=%d/ratio=%d/%s' % (kind, order, ratio, path),
                     (min(k, 1e300), '%s %s z0=%r %s err=%.3g est=%.3g' % (gname, kname, z0, method, err, est)))
            acc.case(job, nontrivial=True, cell=cell)
            continue
        K1 = float(cm.ENV['C18']['K1'])
        K2 = float(cm.ENV['C18']['K2'])
        bound = K1 * est + K2 * EPS * scale
        ok = err <= bound
        acc.case(job, nontrivial=True, cell=cell, outcome=(ok, round(math.log10(min(max(err, 1e-300), 1e300))) if err == err else 'nan'))
        if est > 0 and math.isfinite(err):
            acc.maxi('worst_excess_over_estimate', max(err - K2 * EPS * scale, 0.0) / est)
        if not ok:
            what = 'nonfinite' if not math.isfinite(err) else 'dishonest'
            acc.violation('C18:%s:%s:%s:order=%d:ratio=%d:%s' % ('Limit' if kind == 'limit' else 'Residue', what, kname,
                                                                    order, ratio, path),
                          jc, '%s(%s %s, z0=%r, %s, %s, order=%d, step_ratio=%d) = %r, g(z0) = %r: error %.3g > K1=%g x '
                          'estimate %.3g + floor %.3g' % (kind, gname, kname, z0, method, path, order, ratio, val, exact, err,
                                                          K1, est, K2 * EPS * scale), rank=order * 100 + ratio)
    return acc


# ---------------------------------------------------------------------------------------------
# arrays mixing singular and regular points; regular points are returned unchanged

def work_arrays(chunk):
    from numdifftools.limits import Limit
    acc = fw.Acc()
    for gname, kname, z0, pattern, shape_kind in chunk:
        f = make_f(gname, kname, z0)
        L = len(pattern)
        offs = [0.0 if c == 'S' else (0.37 + 0.21 * i) for i, c in enumerate(pattern)]
        z = np.array([z0 + o for o in offs])
        if shape_kind == '2d':
            z = z.reshape(1, L)
        elif shape_kind == 'col':
            z = z.reshape(L, 1)
        zin = z
        if shape_kind == 'masked':
            zin = np.ma.array(z)           # an ndarray subclass whose values are ordinary (nothing masked)
        elif shape_kind == 'list':
            zin = z.tolist()
        jc = dict(kind='array', g=gname, kernel=kname, z0=z0, pattern=pattern, shape=shape_kind)
        cell = ['array/%s' % pattern, 'array/shape-%s' % shape_kind]
        try:
            with warnings.catch_warnings():
                warnings.simplefilter('ignore')
                with np.errstate(all='ignore'):
                    direct = f(z)
                    val, info = Limit(f, full_output=True)(zin)
        except Exception as e:
            acc.case(tuple(jc.items()), nontrivial=True, cell=cell, outcome='raised')
            acc.violation('C18:Limit-array:raised-%s' % type(e).__name__, jc, '%s: %s' % (type(e).__name__, e), rank=L)
            continue
        masked = np.ma.isMaskedArray(val) and bool(np.ma.getmaskarray(val).any())
        val_shown = repr(val)
        val = np.asarray(val)
        est = np.asarray(info.error_estimate)
        prob = None
        if masked:
            prob = ('masked-result', 'result %s has masked entries (input: a masked array with nothing masked, %r)' % (val_shown, z.tolist()))
        elif val.shape != z.shape:
            prob = ('shape', 'input shape %r, result shape %r' % (z.shape, val.shape))
        else:
            exact = gexact(gname, z0)
            fin = np.isfinite(direct)
            K1 = float(cm.ENV['C18']['K1']) if cm.ENV and 'C18' in cm.ENV else 100.0
            K2 = float(cm.ENV['C18']['K2']) if cm.ENV and 'C18' in cm.ENV else 1e4
            for idx in np.ndindex(z.shape):
                if fin[idx]:
                    if not (val[idx] == direct[idx]):
                        prob = ('regular-point-changed', 'f is finite at z=%r (%r) but Limit returned %r'
                                % (z[idx], direct[idx], val[idx]))
                    elif est.shape == z.shape and est[idx] != 0:
                        prob = ('regular-point-estimate', 'regular point has error estimate %r' % (est[idx],))
                else:
                    e = float(np.abs(est[idx])) if est.shape == z.shape else float('nan')
                    err = abs(complex(val[idx]) - exact)
                    if not err <= K1 * e + K2 * EPS * (abs(exact) + 1):
                        prob = ('singular-point-wrong', 'singular point z0=%r: %r, g(z0)=%r, estimate %r'
                                % (z[idx], val[idx], exact, e))
                if prob:
                    break
        acc.case(tuple(sorted(jc.items(), key=str)), nontrivial='S' in pattern and 'R' in pattern, cell=cell, outcome=prob is None)
        if prob:
            acc.violation('C18:Limit-array:%s:%s' % (prob[0], shape_kind), jc, prob[1], rank=L)
    return acc


# ---------------------------------------------------------------------------------------------
# arrays holding TWO different singular points (a != b, different limits) and regular points in every layout

def work_arrays2(chunk):
    from numdifftools.limits import Limit
    acc = fw.Acc()
    K1 = float(cm.ENV['C18']['K1'])
    K2 = float(cm.ENV['C18']['K2'])
    for job in chunk:
        gname, k1, k2, z0, pattern, method, path = job[:7]
        layout = job[7] if len(job) > 7 else '1d'
        a, b = z0, z0 + 0.75
        g = G[gname][0]
        s1, s2 = KERNELS[k1], KERNELS[k2]

        def f(z, a=a, b=b, g=g, s1=s1, s2=s2):
            return g(z) * s1(z - a) * s2(z - b)
        with mp.workdps(40):
            ga = complex(G[gname][1](mp.mpmathify(a))) * complex(_mp_kernel(k2, mp.mpmathify(a) - mp.mpmathify(b)))
            gb = complex(G[gname][1](mp.mpmathify(b))) * complex(_mp_kernel(k1, mp.mpmathify(b) - mp.mpmathify(a)))
        pts, exact = [], []
        for i, c in enumerate(pattern):
            if c == 'A':
                pts.append(a)
                exact.append(ga)
            elif c == 'B':
                pts.append(b)
                exact.append(gb)
            else:
                pts.append(z0 + 0.31 + 0.17 * i)
                exact.append(None)
        z = layout_of(np.array(pts), layout)
        jc = dict(kind='array2', g=gname, k1=k1, k2=k2, z0=z0, pattern=pattern, method=method, path=path)
        cell = ['array2/%s' % pattern]
        if layout != '1d':
            jc['layout'] = layout
            cell.append('array2/layout-' + layout)
        try:
            with warnings.catch_warnings():
                warnings.simplefilter('ignore')
                with np.errstate(all='ignore'):
                    direct = f(z)
                    val, info = Limit(f, full_output=True, method=method, path=path)(z)
        except Exception as e:
            acc.case(tuple(sorted(jc.items(), key=str)), nontrivial=True, cell=cell, outcome='raised')
            acc.violation('C18:Limit-array:raised-%s' % type(e).__name__, jc, '%s: %s' % (type(e).__name__, e), rank=len(pattern))
            continue
        masked = np.ma.isMaskedArray(val) and bool(np.ma.getmaskarray(val).any())
        val_shown = repr(val)
        val = np.asarray(val)
        est = np.asarray(info.error_estimate)
        prob = None
        if masked:
            prob = ('masked-result', 'result %s has masked entries (input: a masked array with nothing masked, %r)' % (val_shown, z.tolist()))
        elif val.shape != z.shape:
            prob = ('shape', 'input shape %r, result shape %r' % (z.shape, val.shape))
        else:
            # logical (C-order) positions, whatever the memory layout of z
            direct, val, zshape = np.asarray(direct).ravel(), val.ravel(), z.shape
            est = est.ravel() if est.shape == zshape else est
            z = z.ravel()
            for i, c in enumerate(pattern):
                if c == 'R':
                    if np.isfinite(direct[i]) and not val[i] == direct[i]:
                        prob = ('regular-point-changed', 'f is finite at z=%r (%r) but Limit returned %r' % (z[i], direct[i], val[i]))
                else:
                    e = float(np.abs(est[i])) if est.shape == z.shape else float('nan')
                    err = abs(complex(val[i]) - exact[i])
                    if not err <= K1 * e + K2 * EPS * (abs(exact[i]) + 1):
                        prob = ('singular-point-wrong', 'position %d (%s): Limit %r, exact limit %r, estimate %.3g; full '
                                'result %r' % (i, c, val[i], exact[i], e, val.tolist()))
                if prob:
                    break
        acc.case(tuple(sorted(jc.items(), key=str)), nontrivial=('A' in pattern and 'B' in pattern), cell=cell,
                 outcome=prob is None)
        if prob:
            acc.violation('C18:Limit-array:two-singularities:%s' % prob[0], jc, prob[1], rank=len(pattern))
    return acc


def layout_of(z, layout):
    """the 1-d array z in another shape / memory layout ('2d-*': shape (2, len/2))"""
    if layout == '1d':
        return z
    z2 = z.reshape(2, -1)
    return {'2d-C': z2, '2d-F': np.asfortranarray(z2), '2d-T': np.ascontiguousarray(z2.T).T}[layout]


# ---------------------------------------------------------------------------------------------
# Residue on arrays of poles: f = g(z) / sin(z - a)^p has poles of order p at a + k pi;
# (z - z_k)^p f(z) -> g(z_k) (-1)^(k p), i.e. f = g~(z) / (z - z_k)^p with g~ analytic near z_k

RES_KS = [-1, 0, 1, 2]


def work_residue_arrays(chunk):
    from numdifftools.limits import Residue
    acc = fw.Acc()
    K1 = float(cm.ENV['C18']['K1'])
    K2 = float(cm.ENV['C18']['K2'])
    for gname, p, a, method, path, layout in chunk:
        g = G[gname][0]

        def f(z, g=g, a=a, p=p):
            return g(z) / np.sin(z - a) ** p
        pts = [a + k * math.pi for k in RES_KS]
        with mp.workdps(40):
            exact = [complex(G[gname][1](mp.mpmathify(a) + k * mp.pi)) * (-1) ** (k * p) for k in RES_KS]
        z = layout_of(np.array(pts), layout)
        jc = dict(kind='residue-array', g=gname, p=p, z0=a, method=method, path=path, layout=layout)
        cell = ['residue-array/pole%d' % p, 'residue-array/layout-' + layout]
        try:
            with warnings.catch_warnings():
                warnings.simplefilter('ignore')
                with np.errstate(all='ignore'):
                    val, info = Residue(f, pole_order=p, method=method, path=path, full_output=True)(z)
        except Exception as e:
            acc.case(tuple(sorted(jc.items(), key=str)), nontrivial=True, cell=cell, outcome='raised')
            acc.violation('C18:Residue-array:raised-%s' % type(e).__name__, jc, '%s: %s' % (type(e).__name__, e), rank=p)
            continue
        val = np.asarray(val)
        est = np.asarray(info.error_estimate)
        prob = None
        if val.shape != z.shape or est.shape != z.shape:
            prob = ('shape', 'input shape %r, result shape %r, estimate shape %r' % (z.shape, val.shape, est.shape))
        else:
            v, e = val.ravel(), np.abs(est.ravel())
            # the poles a + k pi are rounded: (z - z_k)^p f carries a relative error ~ p |k| pi eps / |step|; the
            # estimate of the extrapolation covers it on the unchanged tree, the floor is the usual one
            for i, k in enumerate(RES_KS):
                err = abs(complex(v[i]) - exact[i])
                if not err <= K1 * float(e[i]) + K2 * EPS * (abs(exact[i]) + 1):
                    prob = ('pole-wrong', 'pole %d (z=%r): Residue %r, exact %r, estimate %.3g; full result %r'
                            % (k, pts[i], v[i], exact[i], float(e[i]), val.tolist()))
                    break
        acc.case(tuple(sorted(jc.items(), key=str)), nontrivial=True, cell=cell, outcome=prob is None)
        if prob:
            acc.violation('C18:Residue-array:%s' % prob[0], jc, prob[1], rank=p)
    return acc


def work_readonly(chunk):
    """the user function returns a read-only array (np.broadcast_to, a frozen result, np.diagonal ...): the library may
    read it but must not write into it; value and estimate must be identical to those for a writable array"""
    from numdifftools.limits import Limit, Residue
    acc = fw.Acc()
    for kind, gname, p, z0, method, path in chunk:
        g = G[gname][0]
        if kind == 'limit':
            s = KERNELS['sin(w)/w']

            def base(z, g=g, s=s, z0=z0):
                return g(z) * s(z - z0)
        else:
            def base(z, g=g, z0=z0, p=p):
                return g(z) / (z - z0) ** p

        def frozen(z):
            r = np.array(base(z))
            r.setflags(write=False)
            return r
        res = {}
        for name, f in (('writable', base), ('read-only', frozen)):
            try:
                with warnings.catch_warnings():
                    warnings.simplefilter('ignore')
                    with np.errstate(all='ignore'):
                        obj = (Limit(f, method=method, path=path, full_output=True) if kind == 'limit' else
                               Residue(f, pole_order=p, method=method, path=path, full_output=True))
                        val, info = obj(np.array([z0, z0]) if kind == 'residue' else z0)
                res[name] = fw.obs((val, info.error_estimate))
            except Exception as e:      # noqa: BLE001
                res[name] = ('raised', type(e).__name__, str(e)[:80])
        same = res['read-only'] == res['writable']
        if not same and res['read-only'][0] != 'raised' and res['writable'][0] != 'raised':
            # (not an exception: compare the numbers with a tolerance, bit-identity is not part of the statement)
            def arr(o):
                return np.frombuffer(o[2], dtype=o[0]).reshape(o[1])
            same = all(np.allclose(arr(a), arr(b), rtol=1e-9, atol=1e-12) for a, b in zip(res['read-only'], res['writable']))
        jc = dict(kind='readonly', entry=kind, g=gname, p=p, z0=z0, method=method, path=path)
        acc.case(tuple(sorted(jc.items(), key=str)), nontrivial=True, cell='readonly/%s' % kind, outcome=same)
        if not same:
            acc.violation('C18:%s:read-only-result-array' % ('Limit' if kind == 'limit' else 'Residue'), jc,
                          '%s with a user function returning a read-only array: %s; writable: %s'
                          % (kind, str(res['read-only'])[:150], str(res['writable'])[:150]), 1)
    return acc


# ---------------------------------------------------------------------------------------------
# narrow g: g(z) = exp(-((z - z0)/sigma)^2) cos(z - z0), g(z0) = 1, sigma down to 2e-5.  At the largest steps g
# underflows to exactly 0, so the first extrapolated rows are identically 0 (and agree with each other perfectly);
# the reported estimate must still cover the error of whatever is returned.  Default steps only: a user step is the SMALLEST
# step of the sequence (0.125 means steps 0.125 .. 0.125 * 4^24), which never samples a narrow g - nothing to claim there.

NARROW_SIGMAS = [3e-3, 1e-3, 1e-4, 2e-5]
NARROW_Z0 = [0.0, 0.3, -2.0, 0.3 + 0.4j]
NARROW_KERNELS = ['sin(w)/w', 'expm1(w)/w', 'w/sin(w)']
NARROW_OPTS = [dict()] + [dict(step_ratio=r, order=o) for r in (2, 3, 4) for o in (1, 2, 3, 4)]


def work_narrow(chunk):
    from numdifftools.limits import Limit, Residue
    acc = fw.Acc()
    K1 = float(cm.ENV['C18']['K1'])
    K2 = float(cm.ENV['C18']['K2'])
    for kind, sigma, z0, kname, method, oi in chunk:
        opts = NARROW_OPTS[oi]

        def g(z):
            return np.exp(-((z - z0) / sigma) ** 2) * np.cos(z - z0)
        case = ('narrow', kind, sigma, z0, kname, method, oi)
        jc = dict(kind='narrow', entry=kind, sigma=sigma, z0=z0, kernel=kname, method=method, opts=oi)
        cell = ['narrow/%s' % kind, 'narrow/sigma=%g' % sigma]
        try:
            with warnings.catch_warnings():
                warnings.simplefilter('ignore')
                with np.errstate(all='ignore'):
                    if kind == 'limit':
                        s_ = KERNELS[kname]
                        val, info = Limit(lambda z: g(z) * s_(z - z0), full_output=True, method=method, **opts)(z0)
                    else:
                        pp = int(kname)
                        val, info = Residue(lambda z: g(z) / (z - z0) ** pp, pole_order=pp, full_output=True, method=method,
                                            **dict(opts, order=opts.get('order', 1) + pp) if opts else {})(z0)
        except Exception as e:          # noqa: BLE001
            acc.case(case, nontrivial=True, cell=cell, outcome='raised')
            acc.violation('C18:%s:raised-%s:narrow-g' % (kind, type(e).__name__), jc, '%s: %s' % (type(e).__name__, e), rank=oi)
            continue
        err, est, prob = judge(val, info, 1.0)
        if prob:
            acc.case(case, nontrivial=True, cell=cell, outcome=prob[0])
            acc.violation('C18:%s:%s:narrow-g' % (kind, prob[0]), jc, prob[1], rank=oi)
            continue
        ok = err <= K1 * est + K2 * EPS * 2.0
        acc.case(case, nontrivial=True, cell=cell, outcome=ok)
        if not ok:
            acc.violation('C18:%s:dishonest:narrow-g' % ('Limit' if kind == 'limit' else 'Residue'), jc,
                          '%s with g(z) = exp(-((z - z0)/%g)^2) cos(z - z0), %s, z0=%r, method=%s, options %r: value %r, g(z0) = 1: '
                          'error %.3g > K1=%g x estimate %.3g + floor %.3g'
                          % (kind, sigma, ('kernel ' + kname) if kind == 'limit' else ('pole of order ' + kname), z0, method, opts,
                             val, err, K1, est, K2 * EPS * 2.0), rank=oi)
    return acc


def _mp_kernel(kname, w):
    return {'sin(w)/w': lambda w: mp.sin(w) / w, 'expm1(w)/w': lambda w: mp.expm1(w) / w,
            'log1p(w)/w': lambda w: mp.log1p(w) / w, 'w/sin(w)': lambda w: w / mp.sin(w),
            'tan(w)/w': lambda w: mp.tan(w) / w, 'sinc2': lambda w: (mp.sin(w / 2) / (w / 2)) ** 2}[kname](w)


def run(ctx):
    q = ctx.quick
    gs = list(G)
    ks = list(KERNELS)
    if q:
        z0s = ctx.rotate(Z0[:5], 2) + ctx.rotate(Z0[5:], 1)
        gsel = ctx.rotate(gs, 2)
    else:
        z0s, gsel = Z0, gs
    jobs = [('limit', g, k, z0, m, p, o, r) for g in gsel for k in ks for z0 in z0s for m in METHODS for p in PATHS
            for o in ORDERS for r in RATIOS]
    jobs += [('residue', g, pp, z0, m, p, o, r) for g in gsel for pp in (1, 2, 3) for z0 in z0s for m in METHODS
             for p in PATHS for o in range(pp + 1, pp + 5) for r in RATIOS]
    acc = ctx.pmap(work, jobs, chunk=50)
    if CALIBRATE:
        import json
        print(json.dumps({k: v for k, v in sorted(acc.extra.items())}, indent=0))
        return 0
    patterns = [''.join(p) for L in (1, 2, 3) for p in itertools.product('SR', repeat=L)]
    ajobs = [(g, k, z0, pat, sk) for g in gsel[:2] for k in ks for z0 in z0s for pat in patterns
             for sk in ('1d', '2d', 'col', 'masked', 'list')]
    acc.merge(ctx.pmap(work_arrays, ajobs, chunk=50))
    pats2 = [''.join(p) for L in (2, 3, 4) for p in itertools.product('ABR', repeat=L) if 'A' in p and 'B' in p]
    a2 = [(g, 'sin(w)/w', 'expm1(w)/w', z0, pat, m, pth) for g in gsel[:2] for z0 in z0s[:2] + z0s[-1:] for pat in pats2
          for m in METHODS for pth in (PATHS if not q else PATHS[:1])]
    # the length-4 patterns again as (2, 2) arrays in C order, Fortran order and as a transposed view
    pats4 = [p_ for p_ in pats2 if len(p_) == 4]
    a2 += [(g, 'sin(w)/w', 'expm1(w)/w', z0, pat, m, PATHS[0], lay) for g in gsel[:1] for z0 in z0s[:1] + z0s[-1:]
           for pat in (ctx.rotate(pats4, 12)) for m in METHODS for lay in ('2d-C', '2d-F', '2d-T')]
    acc.merge(ctx.pmap(work_arrays2, a2, chunk=40))
    rjobs = [(g, pp, a, m, pth, lay) for g in gsel[:2] for pp in (1, 2, 3) for a in z0s[:2] + z0s[-1:] for m in METHODS
             for pth in PATHS for lay in ('1d', '2d-C', '2d-F', '2d-T')]
    acc.merge(ctx.pmap(work_residue_arrays, rjobs, chunk=8))
    ro = [(kind, g, pp, z0, m, pth) for kind in ('limit', 'residue') for g in gsel[:1] for pp in ((1,) if kind == 'limit' else (1, 2, 3))
          for z0 in z0s[:2] for m in METHODS for pth in PATHS]
    acc.merge(ctx.pmap(work_readonly, ro, chunk=8))
    nj = [('limit', sg, z0, k, m, oi) for sg in NARROW_SIGMAS for z0 in NARROW_Z0 for k in NARROW_KERNELS for m in METHODS
          for oi in range(len(NARROW_OPTS))]
    nj += [('residue', sg, z0, str(pp), m, oi) for sg in NARROW_SIGMAS for z0 in NARROW_Z0[:2] for pp in (1, 2, 3) for m in METHODS
           for oi in (0, 1, 2, 5)]
    acc.merge(ctx.pmap(work_narrow, nj, chunk=20))
    for j in jobs[:2] + jobs[len(jobs) // 2:len(jobs) // 2 + 2]:
        acc.sample(dict(kind=j[0], g=j[1], kernel_or_pole=j[2], z0=j[3], method=j[4], path=j[5], order=j[6], step_ratio=j[7]))
    acc.sample(dict(kind='array', pattern='SRS', meaning='singular, regular, singular point in one call'))
    req = ['limit/%s/%s' % (k, p) for k in ks for p in PATHS] + ['residue/pole%d/%s' % (pp, p) for pp in (1, 2, 3) for p in PATHS]
    req += ['array2/layout-2d-F', 'array2/layout-2d-T', 'residue-array/layout-2d-F', 'residue-array/layout-2d-T', 'residue-array/pole3']
    req += ['readonly/limit', 'readonly/residue', 'narrow/limit', 'narrow/residue'] + ['narrow/sigma=%g' % sg for sg in NARROW_SIGMAS]
    req += ['limit/complex-z0', 'limit/real-z0', 'limit/below', 'limit/above', 'array/SRS', 'array/RS', 'array2/RAB', 'array2/ARBR']
    rule = ('full product %d g x %d kernels x %d z0 (real and complex) x {above, below} x {radial, spiral} x order 1..8 x '
            'step_ratio {2,4,8,16} on the real Limit; Residue with poles of order 1..3, orders p+1..p+4; every S/R pattern '
            'of length <= 3 in 1-d, (1,L) and (L,1) arrays; |value - g(z0)| <= K1 x estimate + K2 x eps x (|g(z0)|+1) with '
            'frozen K1, K2; regular points bit-identical to f with estimate 0; shapes kept.  Every case is non-trivial '
            '(the limit point is a genuine 0/0 or pole); array cases are non-trivial when they mix S and R.'
            % (len(gsel), len(ks), len(z0s)))
    return fw.finish(ctx, acc, LEVEL, rule, exhaustive=True, required_cells=req,
                     assumptions=['g(z0) from 40-digit mpmath', 'K1, K2 calibrated and frozen in envelopes.json (C18)'])


def replay(case):
    z0 = case['z0']
    if isinstance(z0, dict):
        z0 = complex(z0['re'], z0['im'])
    if case['kind'] == 'array2':
        a = work_arrays2([(case['g'], case['k1'], case['k2'], z0, case['pattern'], case['method'], case['path'],
                           case.get('layout', '1d'))])
    elif case['kind'] == 'narrow':
        a = work_narrow([(case['entry'], case['sigma'], z0, case['kernel'], case['method'], case['opts'])])
    elif case['kind'] == 'readonly':
        a = work_readonly([(case['entry'], case['g'], case['p'], z0, case['method'], case['path'])])
    elif case['kind'] == 'residue-array':
        a = work_residue_arrays([(case['g'], case['p'], z0, case['method'], case['path'], case['layout'])])
    elif case['kind'] == 'array':
        a = work_arrays([(case['g'], case['kernel'], z0, case['pattern'], case['shape'])])
    elif case['kind'] == 'limit':
        a = work([('limit', case['g'], case['kernel'], z0, case['method'], case['path'], case['order'], case['ratio'])])
    else:
        a = work([('residue', case['g'], case['p'], z0, case['method'], case['path'], case['order'], case['ratio'])])
    bad = [r['detail'] for k, (n, recs) in a.viol.items() for r in recs]
    return not bad, '%r -> %r' % (case, bad or 'ok')
