"""C11 - misuse fails loudly with ValueError instead of returning numbers (DESIGN 5/C11).

E1: the full misuse menu is enumerated and every element is executed against the real library.
Oracle: the call raises ValueError.  Returning any value ('returned-value') or raising any other
exception type ('raised-<Type>') is a violation.  The oracle shares nothing with the library: a case
is a misuse by construction of the alphabet.

Sub-spaces (field 'kind' of a case):
  complex   complex-step methods on complex x / complex-valued f / both, five classes
  count     f returns the wrong number of values (contract per class, see COUNT_CONTRACT)
  mc_n      multicomplex with n in 3..6
  short     user step generators that yield fewer steps than the rule needs
  dirdiff   directionaldiff with x0.size != vec.size
  fdw       fd_weights_all / fd_weights with n >= len(x)
  fdd       fd_derivative with len(fx) != len(x) and / or n >= len(x)
  residue   Residue with order <= pole_order
  path      Limit / Residue / CStepGenerator with an unknown path string
Controls (valid use of the same functions, same classes) are executed as well and only counted:
they show that the ValueError of a misuse case is not an accident of the test function.

All user functions are written with elementwise arithmetic and indexing only, so that they accept
float, complex and Bicomplex arguments.
"""
import warnings

import numpy as np

from mc import framework as fw
from mc.oracle import stepmodel as sm

LEVEL = 'exploration'
CLASSES = ['Derivative', 'Gradient', 'Jacobian', 'Hessdiag', 'Hessian']
CMETHODS = ['complex', 'multicomplex']
METHODS = ['central', 'forward', 'backward', 'complex', 'multicomplex']
BASES = {'a': (0.7, 0.8, 0.9), 'b': (-1.3, 2.1, 0.4), 'c': (25.0, -0.05, 3.0)}
BAD_PATHS = ['zigzag', '', 'linear', 'spiral ', ' radial', 'r', 's', 'circle', 'radial2', 'spiralx',
             'above']

COUNT_CONTRACT = ('a function must return one value per input element (the statement of C11): Derivative, Hessdiag and '
                  'Hessian are called with x of 1..3 elements and an f returning a different number of values (one fewer, '
                  'one more, a scalar for size >= 2; for Hessdiag/Hessian k values, k in {0, 2, d+1} minus {1, d}).  '
                  'Jacobian and Gradient accept any output length, so no wrong count exists for them; functions whose '
                  'output length changes between evaluations are outside the statement and are not enumerated.')


# ---------------------------------------------------------------------------------------------
# user functions (float / complex / Bicomplex safe: arithmetic + indexing only)

def _elementwise(x):
    return x * x * x + 2.0 * x


def _scalar_of_vector(x):
    d = x.shape[0]
    s = x[0] * x[0]
    for i in range(1, d):
        s = s + (i + 1.0) * x[i] * x[i] * x[0]
    return s


def _vector_of_vector(x):
    return x * x * x + 2.0 * x * x[0]


def _complexify(r, fvar):
    if fvar == 'mul':
        return r * (1.0 + 0.5j)
    if fvar == 'add':
        return r + 0.25j
    if fvar == 'tinyadd':        # complex-valued is complex-valued, however small the imaginary part
        return r + 1e-10j
    return r


def make_fun(cls, fvar='real'):
    """f for class cls; fvar in real / realpart (real-valued even for complex x) / mul / add (complex-valued)."""
    def f(x):
        z = x
        if fvar == 'realpart':
            # a real-valued function of the complex variable (only the x clause of the property applies);
            # "z * 0.0 +" keeps the container type, so a Bicomplex argument still gives a Bicomplex result
            x = x.real
        if cls == 'Derivative':
            r = _elementwise(x)
        elif cls == 'Jacobian':
            r = _vector_of_vector(x)
        else:
            r = _scalar_of_vector(x)
        if fvar == 'realpart':
            r = (z if cls in ('Derivative', 'Jacobian') else z[0]) * 0.0 + r
        return _complexify(r, fvar)
    return f


def make_x(dim, base, xvar='real'):
    """dim 0 = python scalar; xvar in real / all / last / zeroimag."""
    vals = list(BASES[base][:max(dim, 1)])
    if xvar == 'real':
        arr = np.array(vals, dtype=float)
    else:
        arr = np.array(vals, dtype=complex)
        if xvar == 'all':
            arr = arr + 0.25j
        elif xvar == 'last':
            arr[-1] = arr[-1] + 0.25j
        elif xvar == 'tiny':
            arr = arr + 1e-9j
    if dim == 0:
        return arr[0].item()
    return arr


def _is_base(x, x0):
    """True iff the (possibly complex / Bicomplex) argument equals the real base point x0."""
    z1 = getattr(x, 'z1', x)
    z2 = getattr(x, 'z2', None)
    z1 = np.asarray(z1)
    if z1.shape != x0.shape:
        return False
    ok = bool(np.all(np.imag(z1) == 0) and np.all(np.real(z1) == x0))
    if z2 is not None:
        ok = ok and bool(np.all(np.asarray(z2) == 0))
    return ok


def _take(r, k):
    """k values taken cyclically from the 1-d r (fancy indexing works for ndarray and Bicomplex)."""
    d = r.shape[0]
    if k == 0:
        return r[:0]
    return r[[i % d for i in range(k)]]


def _sum(r):
    s = r[0]
    for i in range(1, r.shape[0]):
        s = s + r[i]
    return s


def make_count_fun(cls, wrong, x0):
    """wrong: 'fewer' | 'more' | 'scalar' (Derivative; inconsistent for Jacobian/Gradient) or
    'k=<int>' (Hessdiag / Hessian: vector of k values where one value is required)."""
    d = x0.shape[0]

    def f(x):
        if cls == 'Derivative':
            r = _elementwise(x)
            return {'fewer': lambda: r[:d - 1], 'more': lambda: _take(r, d + 1),
                    'scalar': lambda: _sum(r)}[wrong]()
        if cls in ('Jacobian', 'Gradient'):
            r = _vector_of_vector(x)
            if _is_base(x, x0):
                return r
            return {'fewer': lambda: r[:d - 1], 'more': lambda: _take(r, d + 1),
                    'scalar': lambda: _sum(r)}[wrong]()
        k = int(wrong[2:])
        s = _scalar_of_vector(x)
        return _take(x * x, k) * s
    return f


# ---------------------------------------------------------------------------------------------
# user-written step generator (duck-typed, the documented "StepGenerator object")

class _Steps(object):
    def __init__(self, x, k, ratio, base):
        self.x, self.k, self.step_ratio, self.base = x, k, ratio, base

    def __call__(self):
        one = np.ones(np.shape(self.x))
        for i in range(self.k):
            yield one * self.base / self.step_ratio ** i


class UserGen(object):
    def __init__(self, k, ratio=2.0, base=0.125):
        self.k, self.ratio, self.base = k, ratio, base

    def step_generator_function(self, x, method='forward', n=1, order=2):
        return _Steps(x, self.k, self.ratio, self.base)

    def __call__(self, x, method='forward', n=1, order=2):
        return self.step_generator_function(x, method, n, order)()


def make_gen(name, k):
    from numdifftools.step_generators import MinStepGenerator, MaxStepGenerator
    if name == 'Min':
        return MinStepGenerator(num_steps=k, check_num_steps=False)
    if name == 'Max':
        return MaxStepGenerator(num_steps=k, check_num_steps=False)
    if name == 'MinBase':
        return MinStepGenerator(base_step=0.01, num_steps=k, check_num_steps=False, step_ratio=3.0)
    return UserGen(k)


# ---------------------------------------------------------------------------------------------
# execution of one case

def _build_call(case):
    """Returns a zero-argument callable that performs the (mis)use described by case."""
    import numdifftools as nd
    from numdifftools import fornberg
    from numdifftools.limits import Limit, Residue, CStepGenerator
    kind = case['kind']
    if kind in ('complex', 'control'):
        cls, method, dim = case['cls'], case['method'], case['dim']
        kw = dict(method=method)
        if case.get('order') is not None:
            kw['order'] = case['order']
        if cls == 'Derivative':
            kw['n'] = case['n']
        if case.get('full'):
            kw['full_output'] = True
        f = make_fun(cls, case['fvar'])
        x = make_x(dim, case['base'], case['xvar'])
        return lambda: getattr(nd, cls)(f, **kw)(x)
    if kind == 'count':
        cls, method, dim = case['cls'], case['method'], case['dim']
        x0 = make_x(dim, case['base'])
        kw = dict(method=method)
        if cls != 'Hessian':
            kw['order'] = case['order']
        if cls == 'Derivative':
            kw['n'] = case['n']
        if case.get('full'):
            kw['full_output'] = True
        f = make_count_fun(cls, case['wrong'], x0)
        return lambda: getattr(nd, cls)(f, **kw)(x0)
    if kind == 'mc_n':
        x = make_x(case['dim'], case['base'])
        kw = dict(method='multicomplex', n=case['n'], order=case['order'])
        if case.get('full'):
            kw['full_output'] = True
        if case.get('late'):
            # n is raised after construction through the documented property setter
            def call():
                d = nd.Derivative(_elementwise, method='multicomplex', n=1, order=case['order'])
                d.n = case['n']
                return d(x)
            return call
        return lambda: nd.Derivative(_elementwise, **kw)(x)
    if kind == 'short':
        cls = case['cls']
        x = make_x(case['dim'], case['base'])
        kw = dict(method=case['method'], order=case['order'], step=make_gen(case['gen'], case['k']))
        if cls == 'Derivative':
            kw['n'] = case['n']
        return lambda: getattr(nd, cls)(make_fun(cls), **kw)(x)
    if kind == 'dirdiff':
        sa, sb = tuple(case['x0_shape']), tuple(case['vec_shape'])
        x0 = 0.5 + 0.1 * np.arange(int(np.prod(sa)), dtype=float).reshape(sa)
        vec = 1.0 + np.arange(int(np.prod(sb)), dtype=float).reshape(sb)
        if case.get('as_list'):
            x0, vec = x0.tolist(), vec.tolist()

        def fs(x):
            x = x.ravel()
            return _scalar_of_vector(x)
        return lambda: nd.directionaldiff(fs, x0, vec, method=case['method'])
    if kind == 'fdw':
        x = [0.5 * i - 0.7 for i in range(case['len'])]
        if case['form'] == 'array':
            x = np.array(x, dtype=float)
        fn = getattr(fornberg, case['func'])
        return lambda: fn(x, case['x0'], case['n'])
    if kind in ('fdd', 'fdd-stencil'):
        x = np.linspace(0.0, 1.0, case['len_x']) if case['len_x'] else np.zeros(0)
        fx = np.linspace(0.0, 1.0, case['len_fx']) ** 2 if case['len_fx'] else np.zeros(0)
        if case.get('form') == 'list':
            x, fx = x.tolist(), fx.tolist()
        return lambda: fornberg.fd_derivative(fx, x, case['n'], case['m'])
    if kind == 'residue':
        kw = dict(order=case['order'], pole_order=case['pole_order'], method=case['method'])
        if case.get('step') is not None:
            kw['step'] = case['step']
        if case.get('full'):
            kw['full_output'] = True
        return lambda: Residue(lambda z: 1.0 / z ** case['pole_order'], **kw)(0.0)
    if kind == 'path':
        def g(z):
            return np.sin(z) / z
        entry, p = case['entry'], case['path']
        o = dict(case.get('opts') or {})
        if entry == 'Limit':
            return lambda: Limit(g, path=p, **o)(0.0)
        if entry == 'Limit-regular-point':      # f is finite at the point: nothing has to be extrapolated, the path is still wrong
            return lambda: Limit(np.cos, path=p, **o)(0.0)
        if entry == 'Limit-regular-array':
            return lambda: Limit(np.exp, path=p, full_output=True, **o)(np.array([0.0, 1.0]))
        if entry == 'Limit-step':
            return lambda: Limit(g, step=0.1, path=p, full_output=True, **o)(0.0)
        if entry == 'Residue':
            return lambda: Residue(lambda z: 1.0 / z, path=p, **o)(0.0)
        if entry == 'CStepGenerator':
            return lambda: list(CStepGenerator(path=p, **o)(0.0))
        if entry == 'Limit-generator':
            return lambda: Limit(g, step=CStepGenerator(path=p, **dict(dict(dtheta=np.pi / 3), **o)))(0.0)
    raise fw.HarnessError('unknown case kind %r' % (case,))


PATH_COMPANIONS = [dict(dtheta=0), dict(dtheta=0.0), dict(dtheta=-0.2), dict(step_ratio=2.0), dict(num_steps=3),
                   dict(dtheta=0, step_ratio=2.0, num_steps=3)]


def warm_up():
    """a suite of VALID calls (every class, both complex-step methods, real-step methods, the documented n)
    executed from the pristine state; the misuse cases are then repeated in this used state"""
    import numdifftools as nd
    from numdifftools import fornberg as ndf
    from numdifftools.limits import Limit, Residue
    x2 = np.array([0.7, 0.8])
    with warnings.catch_warnings():
        warnings.simplefilter('ignore')
        with np.errstate(all='ignore'):
            for method, ns in (('multicomplex', (1, 2)), ('complex', (1, 2, 3, 4, 5, 6)), ('central', (1, 2, 3)),
                               ('forward', (1, 2)), ('backward', (1, 2))):
                for n in ns:
                    for order in (2, 4):
                        nd.Derivative(_elementwise, method=method, n=n, order=order)(0.7)
                        nd.Derivative(_elementwise, method=method, n=n, order=order, full_output=True)(x2)
                for cls in ('Gradient', 'Jacobian', 'Hessdiag', 'Hessian'):
                    f = _vector_of_vector if cls == 'Jacobian' else _scalar_of_vector
                    getattr(nd, cls)(f, method=method)(x2)
            ndf.fd_weights_all(np.arange(-2., 3.), 0.0, 3)
            ndf.fd_derivative(np.arange(8.) ** 2, np.arange(8.), 2, 1)
            Limit(lambda z: np.sin(z) / z)(0.0)
            Residue(lambda z: 1 / np.expm1(z), pole_order=1)(0.0)
            nd.directionaldiff(_scalar_of_vector, x2, [1.0, 2.0])


def execute(case, fresh=True):
    """-> (status, text): status is 'ValueError', 'returned-value' or 'raised-<Type>'."""
    if fresh:
        fw.fresh_library_state()
    call = _build_call(case)
    try:
        with warnings.catch_warnings():
            warnings.simplefilter('ignore')
            with np.errstate(all='ignore'):
                val = call()
    except ValueError as e:
        return 'ValueError', 'ValueError: %s' % (str(e)[:120],)
    except Exception as e:
        return 'raised-' + type(e).__name__, 'raised %s: %s' % (type(e).__name__, str(e)[:160])
    if isinstance(val, tuple) and val and not isinstance(val[0], tuple):
        val = val[0]
    try:
        txt = np.array2string(np.asarray(val), precision=6, threshold=12)
    except Exception:
        txt = repr(val)
    return 'returned-value', 'returned %s' % txt[:200]


def entry_point(case):
    k = case['kind']
    if k in ('complex', 'count', 'short', 'control'):
        return case['cls']
    return {'mc_n': 'Derivative', 'dirdiff': 'directionaldiff', 'fdw': case.get('func'),
            'fdd': 'fd_derivative', 'fdd-stencil': 'fd_derivative', 'residue': 'Residue',
            'path': {'Limit-step': 'Limit', 'Limit-generator': 'CStepGenerator'}.get(case.get('entry'),
                                                                                     case.get('entry'))}[k]


def condition(case):
    """Structural condition of the misuse (no raw numbers of the case)."""
    k = case['kind']
    if k == 'complex':
        return 'complex-step:' + {'x': 'complex-x', 'f': 'complex-f', 'both': 'complex-x+f'}[case['mis']]
    if k == 'count':
        cls, d, w = case['cls'], case['dim'], case['wrong']
        if cls == 'Derivative':
            extra = ':x-size-1' if d == 1 else ''
            return 'wrong-count:f-returns-' + w + extra
        if cls in ('Jacobian', 'Gradient'):
            one_sided = case['method'] in ('forward', 'backward')
            return 'inconsistent-count:displaced-' + w + (':one-sided' if one_sided else ':symmetric-or-complex')
        kk = int(w[2:])
        what = 'empty' if kk == 0 else ('as-many-as-x' if kk == d else 'vector')
        return 'wrong-count:scalar-function-required:f-returns-' + what
    if k == 'mc_n':
        return 'multicomplex-n>2' + (':n-set-after-construction' if case.get('late') else '')
    if k == 'short':
        return 'too-few-steps'
    if k == 'dirdiff':
        return 'size-mismatch'
    if k == 'fdw':
        return 'n>=len(x)' + (':empty-x' if case['len'] == 0 else '')
    if k == 'fdd':
        return case['sub']
    if k == 'residue':
        return 'order<=pole_order'
    if k == 'path':
        return 'unknown-path' + (':empty-string' if case['path'] == '' else '')
    return k


def cell_of(case):
    k = case['kind']
    if k == 'complex':
        return 'complex/%s/%s/%s' % (case['cls'], case['method'], case['mis'])
    if k == 'count':
        return 'count/%s/%s' % (case['cls'], case['method'])
    if k == 'mc_n':
        return 'mc_n/n=%d' % case['n']
    if k == 'short':
        return ['short/%s/%s' % (case['cls'], case['method']), 'short/gen=%s' % case['gen']]
    if k == 'fdw':
        return 'fdw/%s' % case['func']
    if k == 'fdd':
        return 'fdd/%s' % case['sub']
    if k == 'path':
        return 'path/%s' % case['entry']
    return k


def rank_of(case):
    r = 0
    for key, w in (('dim', 100), ('n', 10), ('order', 1), ('k', 1000), ('len', 10), ('len_x', 10)):
        v = case.get(key)
        if isinstance(v, int):
            r += w * v
    if case.get('method') in METHODS:
        r += METHODS.index(case['method'])
    if case.get('full') or case.get('base', 'a') != 'a':
        r += 100000
    return r


def case_id(case):
    return tuple(sorted((k, repr(v)) for k, v in case.items()))


def work(chunk):
    acc = fw.Acc()
    pristine_ok = {}
    for ci, case in enumerate(chunk):
        status, text = execute(case)
        pristine_ok[ci] = status == 'ValueError'
        kind = case['kind']
        if kind == 'control':
            # valid use: observed only (not part of the property)
            acc.evaluations += 1
            acc.count('control:' + ('returned' if status == 'returned-value' else status))
            continue
        if kind == 'fdd-stencil':
            # documented restriction 2*mm+2 <= len(x) with n < len(x): observed only, not judged
            acc.evaluations += 1
            acc.count('observed-only:fd_derivative-grid-shorter-than-stencil:' + status)
            continue
        acc.case(case_id(case), nontrivial=True, cell=cell_of(case), outcome=(kind, status))
        acc.count('outcome:' + status)
        if status != 'ValueError':
            key = 'C11:%s:%s:%s' % (entry_point(case), status, condition(case))
            acc.violation(key, case, '%s -> %s (expected ValueError)' % (describe(case), text),
                          rank=rank_of(case))
    # second pass (E2, histories [valid use ...; misuse]): the same misuse cases after a suite of valid calls,
    # without restoring the library state in between - a guard that is skipped on a cache hit shows here
    fw.fresh_library_state()
    warm_up()
    for ci, case in enumerate(chunk):
        if case['kind'] in ('control', 'fdd-stencil') or not pristine_ok[ci]:
            continue        # (a case that already fails from the pristine state is reported there)
        status, text = execute(case, fresh=False)
        acc.case(('after-valid-use',) + tuple(case_id(case)) if isinstance(case_id(case), tuple) else ('after-valid-use', case_id(case)),
                 nontrivial=True, cell='after-valid-use/' + case['kind'], outcome=(case['kind'], status))
        if status != 'ValueError':
            c2 = dict(case)
            c2['after_valid_use'] = True
            acc.violation('C11:%s:%s:%s:after-valid-use' % (entry_point(case), status, condition(case)), c2,
                          'after a suite of valid calls: %s -> %s (expected ValueError)' % (describe(case), text),
                          rank=rank_of(case) + 1)
    fw.fresh_library_state()
    return acc


# ---------------------------------------------------------------------------------------------
# the same misuse in an interpreter started with -O (assert statements are compiled away): the library's guards are
# function calls (`_assert(cond, msg)` raises ValueError), so the optimisation level of the caller does not matter

_O_CHILD = r"""
import pickle, sys
sys.path.insert(0, %r)
from mc import framework as fw
fw.setup_paths()
from mc.props import c11
cases = pickle.load(sys.stdin.buffer)
out = []
for i, case in enumerate(cases):
    status, text = c11.execute(case)
    if status != 'ValueError':
        out.append((i, status, text))
sys.stdout.buffer.write(b'RESULT' + pickle.dumps((bool(__debug__), out)))
"""


def work_optimised(chunk):
    import pickle
    import subprocess
    import sys
    acc = fw.Acc()
    cases = [c for c in chunk if c['kind'] not in ('control', 'fdd-stencil')]
    r = subprocess.run([sys.executable, '-O', '-c', _O_CHILD % fw.VERIF], input=pickle.dumps(cases), capture_output=True)
    if r.returncode != 0 or b'RESULT' not in r.stdout:
        raise fw.HarnessError('python -O child failed: ' + r.stderr.decode('utf8', 'replace')[-400:])
    debug, bad = pickle.loads(r.stdout.split(b'RESULT', 1)[1])
    if debug:
        raise fw.HarnessError('the -O child ran with __debug__ == True')
    badmap = {i: (st, tx) for i, st, tx in bad}
    for i, case in enumerate(cases):
        st = badmap.get(i, ('ValueError', ''))[0]
        acc.case(('python-O',) + (case_id(case) if isinstance(case_id(case), tuple) else (case_id(case),)), nontrivial=True,
                 cell='python-O/' + case['kind'], outcome=(case['kind'], st))
        if i in badmap:
            c2 = dict(case)
            c2['python_O'] = True
            acc.violation('C11:%s:%s:%s:python-O' % (entry_point(case), st, condition(case)), c2,
                          'in an interpreter started with -O: %s -> %s (expected ValueError)' % (describe(case), badmap[i][1]),
                          rank=rank_of(case) + 2)
    return acc


def describe(case):
    k = case['kind']
    if k == 'complex':
        return ('%s(f, method=%r%s%s)(x): %s' % (
            case['cls'], case['method'],
            ', n=%d' % case['n'] if case['cls'] == 'Derivative' else '',
            ', order=%r' % case['order'] if case.get('order') is not None else '',
            {'x': 'x complex (%s), f %s' % (case['xvar'], 'real-analytic' if case['fvar'] == 'real' else 'f(Re x), real-valued'), 'f': 'x real, f complex-valued (%s)' % case['fvar'],
             'both': 'x complex (%s), f complex-valued (%s)' % (case['xvar'], case['fvar'])}[case['mis']])
            + ', dim %d' % case['dim'])
    return ', '.join('%s=%r' % kv for kv in sorted(case.items()))


# ---------------------------------------------------------------------------------------------
# enumeration

def n_menu(cls, method):
    if cls != 'Derivative':
        return [None]
    return [1, 2, 3, 4] if method == 'complex' else [1, 2]


def order_menu(cls):
    return [None] if cls == 'Hessian' else [2, 4]


def enumerate_cases(ctx):
    bases = ['a'] if ctx.quick else ['a', 'b', 'c']
    fulls = [False] if ctx.quick else [False, True]
    cases = []
    # -- complex misuse + controls
    for cls in CLASSES:
        dims = [0, 1, 2, 3] if cls == 'Derivative' else [1, 2, 3]
        for method in CMETHODS:
            for n in n_menu(cls, method):
                for order in order_menu(cls):
                    for dim in dims:
                        for base in bases:
                            for full in fulls:
                                common = dict(cls=cls, method=method, dim=dim, n=n, order=order, base=base,
                                              full=full)
                                xvars = ['all'] + (['last'] if dim >= 2 else [])
                                for xv in xvars:
                                    cases.append(dict(common, kind='complex', mis='x', xvar=xv, fvar='real'))
                                    cases.append(dict(common, kind='complex', mis='x', xvar=xv, fvar='realpart'))
                                    for fv in ('mul', 'add'):
                                        cases.append(dict(common, kind='complex', mis='both', xvar=xv, fvar=fv))
                                for fv in ('mul', 'add', 'tinyadd'):
                                    cases.append(dict(common, kind='complex', mis='f', xvar='real', fvar=fv))
                                cases.append(dict(common, kind='complex', mis='x', xvar='tiny', fvar='real'))
                                cases.append(dict(common, kind='control', mis='none', xvar='real', fvar='real'))
                                # complex dtype with zero imaginary part is not a complex variable
                                cases.append(dict(common, kind='control', mis='none', xvar='zeroimag',
                                                  fvar='real'))
    # -- wrong number of values
    for cls in ('Derivative', 'Hessdiag', 'Hessian'):
        for method in METHODS:
            ns = [1, 2] if cls == 'Derivative' else [None]
            for n in ns:
                for order in order_menu(cls):
                    for dim in (1, 2, 3):
                        if cls in ('Hessdiag', 'Hessian'):
                            wrongs = ['k=%d' % k for k in sorted({0, 2, dim + 1} - {1, dim})]
                        else:
                            wrongs = ['fewer', 'more'] + (['scalar'] if dim >= 2 else [])
                        for w in wrongs:
                            for base in bases:
                                for full in fulls:
                                    cases.append(dict(kind='count', cls=cls, method=method, n=n, order=order,
                                                      dim=dim, wrong=w, base=base, full=full))
    # -- multicomplex n > 2
    for n in (3, 4, 5, 6):
        for order in (1, 2, 3, 4):
            for dim in (0, 1, 2, 3):
                for late in (False, True):
                    for base in bases:
                        for full in fulls:
                            cases.append(dict(kind='mc_n', n=n, order=order, dim=dim, late=late, base=base,
                                              full=full))
    # -- too few steps
    gens = ['Min', 'Max', 'User'] + ([] if ctx.quick else ['MinBase'])
    for method in METHODS:
        for n in range(1, 7):
            if method == 'multicomplex' and n > 2:
                continue
            for order in range(1, 9):
                need = sm.rule_length(method, n, order)
                for k in range(1, need):
                    for gen in gens:
                        for dim in ((0, 2) if ctx.quick else (0, 1, 2, 3)):
                            cases.append(dict(kind='short', cls='Derivative', method=method, n=n, order=order,
                                              k=k, gen=gen, dim=dim, base='a'))
    for cls, n in (('Gradient', 1), ('Jacobian', 1), ('Hessdiag', 2)):
        for method in METHODS:
            for order in range(1, 9):
                need = sm.rule_length(method, n, order)
                for k in range(1, need):
                    for gen in gens:
                        for dim in ((2,) if ctx.quick else (1, 2, 3)):
                            cases.append(dict(kind='short', cls=cls, method=method, n=n, order=order, k=k,
                                              gen=gen, dim=dim, base='a'))
    # -- directionaldiff
    shapes = [(k,) for k in (1, 2, 3)] + [(r, c) for r in (1, 2, 3) for c in (1, 2, 3)]
    for sa in shapes:
        for sb in shapes:
            if int(np.prod(sa)) == int(np.prod(sb)):
                continue
            for method in METHODS:
                for as_list in (False, True):
                    cases.append(dict(kind='dirdiff', x0_shape=list(sa), vec_shape=list(sb), method=method,
                                      as_list=as_list))
    # -- fornberg
    for func in ('fd_weights_all', 'fd_weights'):
        for m in range(0, 9):
            for n in range(m, m + 4):
                for x0 in (0.0, 0.1, -0.7):
                    for form in ('list', 'array'):
                        cases.append(dict(kind='fdw', func=func, len=m, n=n, x0=x0, form=form))
    for L in range(0, 13):
        for dlt in (-3, -2, -1, 1, 2, 3):
            if L + dlt < 0:
                continue
            for n in (1, 2, 3, 4):
                for m in (1, 2, 3):
                    sub = 'len(fx)!=len(x)' if n < L else 'len(fx)!=len(x)+n>=len(x)'
                    for form in ('array', 'list'):
                        cases.append(dict(kind='fdd', sub=sub, len_x=L, len_fx=L + dlt, n=n, m=m, form=form))
        for n in range(L, L + 4):
            if n == 0:
                continue
            for m in (1, 2, 3):
                for form in ('array', 'list'):
                    cases.append(dict(kind='fdd', sub='n>=len(x)', len_x=L, len_fx=L, n=n, m=m, form=form))
    for L in range(2, 12):
        for n in range(1, min(L, 5)):
            for m in (1, 2, 3):
                if 2 * (n // 2 + m) + 2 > L:
                    cases.append(dict(kind='fdd-stencil', len_x=L, len_fx=L, n=n, m=m, form='array'))
    # -- Residue / paths
    for po in range(1, 7):
        for order in range(-1, po + 1):
            for method in ('above', 'below'):
                for step in (None, 0.1):
                    for full in (False, True):
                        cases.append(dict(kind='residue', pole_order=po, order=order, method=method,
                                          step=step, full=full))
    for entry in ('Limit', 'Limit-step', 'Residue', 'CStepGenerator', 'Limit-generator', 'Limit-regular-point', 'Limit-regular-array'):
        for p in BAD_PATHS:
            cases.append(dict(kind='path', entry=entry, path=p))
        # an unknown path stays an error whatever legitimate path options accompany it
        for p in BAD_PATHS[:3]:
            for o in PATH_COMPANIONS:
                cases.append(dict(kind='path', entry=entry, path=p, opts=o))
    return cases


def required_cells():
    req = ['complex/%s/%s/%s' % (c, m, s) for c in CLASSES for m in CMETHODS for s in ('x', 'f', 'both')]
    req += ['count/%s/%s' % (c, m) for c in ('Derivative', 'Hessdiag', 'Hessian') for m in METHODS]
    req += ['mc_n/n=%d' % n for n in (3, 4, 5, 6)]
    req += ['short/Derivative/%s' % m for m in METHODS if m != 'multicomplex']
    req += ['short/%s/%s' % (c, m) for c in ('Gradient', 'Jacobian', 'Hessdiag')
            for m in ('central', 'forward', 'backward')]
    req += ['short/gen=%s' % g for g in ('Min', 'Max', 'User')]
    req += ['dirdiff', 'fdw/fd_weights_all', 'fdw/fd_weights', 'fdd/len(fx)!=len(x)', 'fdd/n>=len(x)',
            'fdd/len(fx)!=len(x)+n>=len(x)', 'residue']
    req += ['python-O/%s' % k for k in ('fdw', 'fdd', 'residue', 'path', 'dirdiff', 'mc_n')]
    req += ['path/%s' % e for e in ('Limit', 'Limit-step', 'Residue', 'CStepGenerator', 'Limit-generator', 'Limit-regular-point',
                                    'Limit-regular-array')]
    return req


def run(ctx):
    cases = enumerate_cases(ctx)
    acc = ctx.pmap(work, cases, chunk=200)
    cheap = [c for c in cases if c['kind'] in ('fdw', 'fdd', 'residue', 'path', 'dirdiff', 'mc_n')]
    acc.merge(ctx.pmap(work_optimised, cheap, chunk=max(len(cheap) // 8, 1)))
    by_kind = {}
    for c in cases:
        by_kind.setdefault(c['kind'], []).append(c)
    for k in ('complex', 'count', 'mc_n', 'short', 'dirdiff', 'fdw', 'fdd', 'residue', 'path'):
        lst = by_kind[k]
        acc.sample(dict(subspace=k, size=len(lst), first=lst[0], middle=lst[len(lst) // 2]))
    acc.extra['subspace_sizes'] = repr({k: len(v) for k, v in sorted(by_kind.items())})
    rule = ('the complete misuse menu, every element executed on the real library: {Derivative, Gradient, '
            'Jacobian, Hessdiag, Hessian} x {complex, multicomplex} x {complex x (all / only the last element '
            'with non-zero imaginary part; f analytic or f(Re x)), complex-valued f (f*(1+0.5j), f+0.25j, f+1e-10j), x+1e-9j, both} x dimension (0..)1..3 x '
            'n (Derivative: 1..4 complex, 1..2 multicomplex) x order {2, 4}; wrong number of returned values for '
            'all five classes x five methods x dimension 1..3 [' + COUNT_CONTRACT + ']; multicomplex n 3..6 '
            '(at construction and through the n setter); user generators (Min, Max, duck-typed) yielding k < '
            'rule length steps for every (method, n<=6, order<=8), rule length from the oracle step model; '
            'directionaldiff for every pair of shapes up to 3x3 with different sizes; fd_weights_all/fd_weights '
            'with n >= len(x), len 0..8; fd_derivative with len(fx) != len(x) and/or n >= len(x), len 0..12; '
            'Residue order -1..pole_order, pole_order 1..6; 11 unknown path strings x 5 entry points.  Oracle: '
            'ValueError is raised; a returned value or any other exception type is a violation.  Every case is '
            'a misuse by construction of the alphabet, hence non-trivial; distinct by construction.  Thorough '
            'adds three base points, full_output, all dimensions for the generator menu.')
    return fw.finish(ctx, acc, LEVEL, rule, exhaustive=True, required_cells=required_cells(),
                     assumptions=['"complex" follows np.iscomplex: at least one element with a non-zero imaginary '
                                  'part; complex dtype with zero imaginary part is valid use (controls, counted '
                                  'only)',
                                  'controls (valid use of the same test functions) and the documented stencil '
                                  'restriction 2*mm+2 <= len(x) of fd_derivative are executed and counted, not '
                                  'judged',
                                  'exceptions that derive from ValueError count as ValueError'])


def replay(case):
    if case.get('python_O'):
        c = {k: v for k, v in case.items() if k != 'python_O'}
        a = work_optimised([c])
        bad = [r['detail'] for k, (n, recs) in a.viol.items() for r in recs]
        return not bad, 'python -O: %s -> %s' % (describe(c), bad or 'ValueError')
    if case.get('after_valid_use'):
        c = {k: v for k, v in case.items() if k != 'after_valid_use'}
        fw.fresh_library_state()
        warm_up()
        status, text = execute(c, fresh=False)
        fw.fresh_library_state()
        return status == 'ValueError', 'after valid use: %s -> %s (expected ValueError)' % (describe(c), text)
    status, text = execute(case)
    ok = status == 'ValueError' or case.get('kind') in ('control', 'fdd-stencil')
    return ok, '%s -> %s (expected ValueError)' % (describe(case), text)
