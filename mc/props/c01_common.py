"""Shared execution of C01 (accuracy envelope) and C02 (honest error estimate, consistent record).

One work item = one expression program; the worker analyses it at every pool point with the oracle
(jets, analyticity radius, noise, scale) and then runs every configuration on the real Derivative.
"""
import json
import math
import os
import warnings

import numpy as np

from mc import framework as fw
from mc import programs as P
from mc.oracle import jets, scale as sc, stepmodel as sm

EPS = np.finfo(float).eps
METHODS = ['central', 'forward', 'backward', 'complex', 'multicomplex']
NMAX = dict(central=6, forward=5, backward=5, complex=7, multicomplex=2)
ORDERS = list(range(1, 9))
POINTS = [1e-3, 0.05, 0.3, 0.75, 1.5, 4.0, 20.0, 100.0, -0.3, -2.0, -20.0]
C_A = dict(central=1.1, forward=1.1, backward=1.1, complex=8.0, multicomplex=8.0)

ENV = json.load(open(os.path.join(fw.VERIF, 'envelopes.json'))) if os.path.exists(
    os.path.join(fw.VERIF, 'envelopes.json')) else None


def env(table, method, n):
    return float(ENV[table]['%s/%d' % (method, n)])


def configs():
    return [(m, n, o) for m in METHODS for n in range(0, NMAX[m] + 1) for o in ORDERS]


def gen_menu(method, honesty=False):
    """user-supplied generators (thorough tier): (label, constructor kwargs for Derivative)"""
    out = []
    if method in ('central', 'forward', 'backward'):
        for bs in (0.25, 0.02):
            for sr in (2, 1.6, 3):
                out.append(('Max', dict(base_step=bs, num_steps=15, step_ratio=sr)))
        out.append(('Max', dict(base_step=0.25, num_steps=25, step_ratio=2)))
        out.append(NEGATIVE['real'])
        if honesty:     # long and steep: no accuracy claim is possible, but the estimate must stay honest (C02)
            out.append(('Max', dict(step_ratio=4.0, num_steps=20)))
    else:
        for ne in (2, 5):
            out.append(('Min', dict(num_extrap=ne)))
        out.append(NEGATIVE['complex'])
    if honesty:         # a bare scalar step: a single estimate is left, its error estimate comes from another branch
        out.append(('scalar', dict(step=1e-3)))
        out.append(('scalar', dict(step=1e-4)))
        out.append(('scalar', dict(step=-1e-3)))
    for st in (0.1, 1e-2):
        out.append(('scalar', dict(step=st, num_extrap=5)))
    out += rows_menu(honesty)
    return out


# steps of negative sign (the differences are then taken on the other side of x; the quotient by h^n keeps the
# derivative's sign): same envelope, and the record must stay self-consistent
NEGATIVE = {'real': ('Max', dict(base_step=-0.25, num_steps=15, step_ratio=2)),
            'complex': ('scalar', dict(step=-1e-2, num_extrap=5))}


def rows_menu(honesty):
    """generators whose step count is tied to the rule length L of the configuration (kind 'rows': num_steps =
    L + rows - 1, check_num_steps=False): rows = 0 is one step too few (the library must refuse it; if it accepts
    it, the value is judged like any other), rows = 2 / 3 leave exactly two / three estimates (C02: the error
    estimate of a very short table must still be honest)."""
    if honesty:
        return [('rows', dict(rows=2)), ('rows', dict(rows=3))]
    return [('rows', dict(rows=0))]


def quick_gen_menu(method, honesty=False):
    """user generators of the menu that also run in the quick tier (on a rotating slice of programs)"""
    if method in ('central', 'forward', 'backward'):
        return [('Max', dict(base_step=0.25, num_steps=15, step_ratio=2)), NEGATIVE['real']] + (
            [('Max', dict(step_ratio=4.0, num_steps=20)), ('scalar', dict(step=1e-3)), ('scalar', dict(step=-1e-3))]
            if honesty else []) + rows_menu(honesty)
    return [('Min', dict(num_extrap=5)), NEGATIVE['complex']] + rows_menu(honesty)


def quick_points(ctx):
    pos = [p for p in POINTS if 0 < p < 20]
    big = [20.0, 100.0, -20.0]
    neg = [-0.3, -2.0]
    s = ctx.seed
    return sorted({pos[s % len(pos)], pos[(s + 2) % len(pos)], big[s % 3], neg[s % 2]})


# ---------------------------------------------------------------------------------------------

def oracle_steps(method, n, order, x, gen):
    """(h_max, h_min) of the documented step sequence for this configuration, from the step model."""
    mo = sm.method_order(method, n, order) if n > 0 else order
    gkind, gopts = gen
    if gkind == 'default':
        cls, opts = sm.derivative_generator(method, None)
    elif gkind == 'scalar':
        o = dict(gopts)
        st = o.pop('step')
        cls, opts = sm.derivative_generator(method, st, **o)
    elif gkind == 'rows':
        cls, opts = rows_generator(method, n, order, gopts['rows'])
    else:
        cls, opts = gkind, dict(gopts)
    steps, _, _ = sm.steps(cls, x, method, n, mo, **opts)
    if not steps:
        return None, None
    a = [abs(float(np.max(np.abs(s)))) for s in steps]
    return max(a), min(a)


def rows_generator(method, n, order, rows):
    cls = 'Max' if method in ('central', 'forward', 'backward') else 'Min'
    return cls, dict(num_steps=max(sm.rule_length(method, n, order) + rows - 1, 1), check_num_steps=False)


def build_derivative(fun, method, n, order, gen, positional=False):
    import numdifftools as nd
    from numdifftools.step_generators import MinStepGenerator, MaxStepGenerator
    gkind, gopts = gen
    kw = dict(method=method, n=n, order=order, full_output=True)
    if gkind == 'scalar':
        kw.update(gopts)
    elif gkind == 'Min':
        kw['step'] = MinStepGenerator(**gopts)
    elif gkind == 'Max':
        kw['step'] = MaxStepGenerator(**gopts)
    elif gkind == 'rows':
        cls, opts = rows_generator(method, n, order, gopts['rows'])
        kw['step'] = (MaxStepGenerator if cls == 'Max' else MinStepGenerator)(**opts)
    if positional:
        # the documented positional order: Derivative(fun, step, method, order, n, **options)
        rest = {k: v for k, v in kw.items() if k not in ('step', 'method', 'order', 'n')}
        return nd.Derivative(fun, kw.get('step'), method, order, n, **rest)
    return nd.Derivative(fun, **kw)


class PointInfo(object):
    __slots__ = ('x', 'an', 'fx', 'ok')


def analyse_points(prog, points, cplx=None):
    """Oracle-side analysis per point; points outside the domain are dropped."""
    out = []
    f = jets.make_fun(prog)
    for x in points:
        try:
            an = sc.analyse(prog, x)
        except (jets.DomainError, ZeroDivisionError, OverflowError, ValueError):
            continue
        with np.errstate(all='ignore'):
            fx = f(np.float64(x))
        if not np.isfinite(fx):
            continue
        pi = PointInfo()
        pi.x, pi.an, pi.fx, pi.ok = x, an, fx, an.ok
        out.append(pi)
    return out


def run_config(fun, cfg, gen, pi, direct_fx, want_steps=False):
    """Execute one configuration at one point.  Returns dict with observed and oracle quantities."""
    import numdifftools.finite_difference as fdm
    method, n, order = cfg[:3]
    positional = len(cfg) > 3 and cfg[3] == 'positional'
    fw.fresh_library_state()
    res = dict(status='ok', x=pi.x)
    try:
        with warnings.catch_warnings():
            warnings.simplefilter('ignore')
            d = build_derivative(fun, method, n, order, gen, positional)
            if positional:
                import copy
                d = copy.deepcopy(d)       # ... and is used through a deep copy (an equal object)
            val, info = d(pi.x)
            res['val'] = val
            res['info'] = info
            res['lib_steps'] = None
            if want_steps:
                try:
                    res['lib_steps'] = [np.asarray(s) for s in d.step(np.asarray(pi.x), method, n, d.method_order)]
                except Exception:
                    res['lib_steps'] = None
    except Exception as e:
        res['status'] = 'raised-' + type(e).__name__
        res['exc'] = '%s: %s' % (type(e).__name__, e)
    return res


def accuracy_terms(cfg, gen, pi, second=None):
    """Oracle-side envelope ingredients: exact value, S_n, factor, class-A flag."""
    method, n, order = cfg
    an = pi.an
    exact = complex(an.exact(n)) if second is None else None
    hmax, hmin = oracle_steps(method, max(n, 1), order, pi.x, gen) if n > 0 else (0.0, 0.0)
    if hmax is None:
        return None
    S, rho, resolved = an.scale(n)
    classA = resolved and an.R_an >= C_A[method] * hmax and n > 0
    fac = 1.0
    if method in ('central', 'forward', 'backward') and hmax > 0 and n > 0:
        fac = max(1.0, (rho / hmax) ** n)
    return dict(exact=exact, S=S, rho=rho, resolved=resolved, classA=classA, fac=fac, hmax=hmax, hmin=hmin)
