"""C02 for Hessian / Hessdiag (and Jacobian / Gradient when mc/props/c03.py provides them): honesty of the
error estimate and self-consistency of the full_output record on the multivariate classes.  Re-uses the
execution space, oracle and class-A rule of C04 (mc/props/c04.py)."""
import numpy as np

from mc import framework as fw
from mc.props import c04
from mc.oracle import ridge_hess as rh

EPS = np.finfo(float).eps
K1 = 100.0


def bits_equal(a, b):
    a, b = np.asarray(a), np.asarray(b)
    if a.shape != b.shape:
        return False
    return bool(np.all((a == b) | ((a != a) & (b != b))))


def record_problems(res, fun, x):
    out = []
    val = np.asarray(res['val'])
    info = res['info']
    est = np.asarray(info.error_estimate)
    fs = np.asarray(info.final_step)
    with np.errstate(all='ignore'):
        direct = fun(np.array(x, dtype=float))
    if not bits_equal(np.squeeze(info.f_value), np.squeeze(direct)):
        out.append(('f_value', 'info.f_value %r != f(x) %r' % (info.f_value, direct)))
    if est.size != val.size or fs.size != val.size:
        out.append(('record-size', 'result %r, error_estimate %r, final_step %r' % (val.shape, est.shape, fs.shape)))
        return out
    for name, a in (('error_estimate', est), ('final_step', fs)):
        try:
            np.broadcast_shapes(a.shape, val.shape)
        except ValueError:
            out.append(('record-shape', '%s of shape %r does not broadcast against the result %r' % (name, a.shape, val.shape)))
    fin = np.isfinite(val).ravel()
    e = est.ravel()
    if np.any(fin & ~fw.nonneg_real(e)):
        out.append(('estimate-sign', 'error_estimate %r for finite result' % (est.tolist(),)))
    return out


def work(chunk, tier='quick'):
    acc = fw.Acc()
    for item in chunk:
        spec, n, xk = item
        x = c04.point(xk, n)
        orc = rh.analyse(spec, x)
        fun = rh.make_fun(spec, n)
        for method in c04.methods_for(spec):
            for entry, orders in (('Hessian', [None]), ('Hessdiag', c04.HD_ORDERS)):
                for order in orders:
                    for gen in c04.gen_menu(method, tier, entry):
                        res = c04.run_call(fun, entry, method, order, gen, x)
                        case = ('multi', spec, n, xk, entry, method, order, c04._gkey(gen))
                        jc = c04._case(spec, n, xk, entry, method, order, gen)
                        jc['kind'] = 'multi'
                        if res['status'] != 'ok':
                            acc.case(case, nontrivial=False, outcome=res['status'])
                            acc.violation('C02:%s:no-record:%s:%s' % (entry, res['status'], method), jc,
                                          'full_output call raised %s' % res.get('exc'),
                                          c04._rank(spec, n, entry, method, order, gen))
                            continue
                        rank = c04._rank(spec, n, entry, method, order, gen)
                        for kind, text in record_problems(res, fun, x)[:1]:
                            acc.violation('C02:%s:%s:%s' % (entry, kind, method), jc, text, rank)
                        t = c04.entry_terms(orc, entry, method, order, gen)
                        if t is None:
                            acc.case(case, nontrivial=False, outcome='no-steps')
                            continue
                        val = np.asarray(res['val'])
                        est = np.abs(np.asarray(res['info'].error_estimate, dtype=float))
                        if entry == 'Hessian':
                            exact, mask, unit, trunc = orc.H, t['classA'], t['unit'], t['trunc']
                        else:
                            exact, mask = np.diag(orc.H), np.diag(t['classA'])
                            unit, trunc = np.diag(t['unit']), np.diag(t['trunc'])
                        if val.shape != exact.shape or est.size != val.size:
                            acc.case(case, nontrivial=False, outcome='shape')
                            continue
                        est = est.reshape(val.shape)
                        err = np.abs(val - exact)
                        F = t['E'] / 100.0
                        bound = K1 * est + F * unit + trunc
                        bad = mask & ~(err <= bound)
                        nontriv = bool(np.any(mask & (F * unit < np.abs(exact) / 2)))
                        acc.case(case, nontrivial=nontriv, cell='%s/%s' % (entry, method), outcome=not bad.any())
                        with np.errstate(all='ignore'):
                            ex = np.where(mask & (est > 0), np.maximum(err - F * unit - trunc, 0) / est, 0.0)
                        if ex.size:
                            acc.maxi('worst_excess_over_estimate/%s/%s' % (entry, method), float(np.nanmax(ex)))
                        if bad.any():
                            idx = tuple(int(i) for i in np.argwhere(bad)[0])
                            acc.violation('C02:%s:dishonest-estimate:%s%s:%s' % (entry, method, c04._gsuffix(gen), rh.family(spec)),
                                          jc, '%s(%s, method=%s, order=%r, gen=%r)(%r) entry %r: error %.3g > 100 x estimate '
                                          '%.3g + floor %.3g' % (entry, rh.show(spec), method, order, gen, list(x), idx,
                                                                 float(err[idx]), float(est[idx]), float((F * unit + trunc)[idx])),
                                          rank)
    return acc


def run_multi(ctx):
    items = c04.items(ctx)
    if ctx.quick:
        # every point kind stays in (the points differ in their per-variable steps); the function specs alternate
        items = [it for k, it in enumerate(items) if (k // 4 + ctx.seed) % 2 == 0 or it[2] == 'mixed']
    return ctx.pmap(work, items, chunk=2, tier=ctx.tier)


def replay(case):
    spec = _tup(case['spec'])
    gen = (case['gen'][0], case['gen'][1])
    x = c04.point(case['xkind'], case['n'])
    orc = rh.analyse(spec, x)
    fun = rh.make_fun(spec, case['n'])
    res = c04.run_call(fun, case['entry'], case['method'], case['order'], gen, x)
    if res['status'] != 'ok':
        return False, 'full_output call raised %s' % res.get('exc')
    probs = record_problems(res, fun, x)
    t = c04.entry_terms(orc, case['entry'], case['method'], case['order'], gen)
    val = np.asarray(res['val'])
    est = np.abs(np.asarray(res['info'].error_estimate, dtype=float)).reshape(val.shape)
    if case['entry'] == 'Hessian':
        exact, mask, unit, trunc = orc.H, t['classA'], t['unit'], t['trunc']
    else:
        exact, mask, unit, trunc = np.diag(orc.H), np.diag(t['classA']), np.diag(t['unit']), np.diag(t['trunc'])
    err = np.abs(val - exact)
    bad = mask & ~(err <= K1 * est + t['E'] / 100.0 * unit + trunc)
    return (not probs and not bad.any()), 'record problems %r; dishonest entries %r; err %r est %r' % (
        probs, np.argwhere(bad).tolist(), err.tolist(), est.tolist())


def _tup(o):
    return tuple(_tup(v) for v in o) if isinstance(o, list) else o


# ---------------------------------------------------------------------------------------------
# Jacobian / Gradient (execution space and oracle of C03)

def work_jac(chunk, tier='quick'):
    import warnings
    import numdifftools as nd
    from mc.props import c03
    from mc.oracle import ridge
    from mc.props import c01_common as cm
    acc = fw.Acc()
    for spec, ptk in chunk:
        spec = tuple(spec)
        family, out, m, n, k, variant = spec
        if family != 'ridge':
            continue
        orc = c03.PointOracle(spec, ptk)
        fun = ridge.make_fun(spec)
        x = np.array(orc.x, dtype=float)
        for cls in (['Jacobian', 'Gradient'] if out == 'scalar' else ['Jacobian']):
            for method in c03.METHODS:
                for order in c03.ORDERS:
                    items, skipped = orc.plan(method, order)
                    case = ('multi-jac', spec, ptk, cls, method, order)
                    jc = dict(kind='multi-jac', spec=list(spec), point=ptk, cls=cls, method=method, order=order,
                              f=ridge.describe(spec), x=list(orc.x))
                    fw.fresh_library_state()
                    try:
                        with warnings.catch_warnings():
                            warnings.simplefilter('ignore')
                            with np.errstate(all='ignore'):
                                val, info = getattr(nd, cls)(fun, method=method, order=order, full_output=True)(x)
                                direct = fun(x)
                    except Exception as e:
                        acc.case(case, nontrivial=False, outcome='raised')
                        acc.violation('C02:%s:no-record:raised-%s:%s' % (cls, type(e).__name__, method), jc,
                                      'full_output call raised %s: %s' % (type(e).__name__, e), rank=n * 100 + m)
                        continue
                    val = np.asarray(val)
                    est = np.asarray(info.error_estimate)
                    fs = np.asarray(info.final_step)
                    prob = None
                    if not bits_equal(np.squeeze(info.f_value), np.squeeze(direct)):
                        prob = ('f_value', 'info.f_value %r != f(x) %r' % (info.f_value, direct))
                    elif est.size != val.size or fs.size != val.size:
                        prob = ('record-size', 'result %r, error_estimate %r, final_step %r' % (val.shape, est.shape, fs.shape))
                    else:
                        for name, a in (('error_estimate', est), ('final_step', fs)):
                            try:
                                np.broadcast_shapes(a.shape, val.shape)
                            except ValueError:
                                prob = ('record-shape', '%s %r does not broadcast against the result %r' % (name, a.shape, val.shape))
                        e = np.abs(est.ravel())
                        if prob is None and np.any(np.isfinite(val.ravel()) & ~fw.nonneg_real(est.ravel())):
                            prob = ('estimate-sign', 'error_estimate %r for a finite result' % (est.tolist(),))
                    if prob:
                        acc.violation('C02:%s:%s:%s' % (cls, prob[0], method), jc, prob[1], rank=n * 100 + m)
                    if est.size != val.size:
                        acc.case(case, nontrivial=False, outcome='record')
                        continue
                    est2 = np.abs(est.reshape(val.shape))
                    F = max(cm.env('E', method, 1) / 100.0, 1e3 * EPS)
                    bad, worst = None, 0.0
                    for (i, j, l, exact, unit, nt) in items:
                        idx = (j,) if val.ndim == 1 else ((i, j) if val.ndim == 2 else (i, j, l))
                        if val.ndim == 0:
                            idx = ()
                        if len(idx) != val.ndim or any(a >= b for a, b in zip(idx, val.shape)):
                            # the result has not the documented shape (C03's subject); for C02: no entry of the record for this entry of the derivative
                            bad = (idx, float('inf'), float('nan'), F * unit)
                            break
                        err = abs(float(val[idx]) - float(exact))
                        bound = K1 * float(est2[idx]) + F * unit
                        if est2[idx] > 0:
                            worst = max(worst, max(err - F * unit, 0.0) / float(est2[idx]))
                        if not err <= bound and bad is None:
                            bad = (idx, err, float(est2[idx]), F * unit)
                    acc.case(case, nontrivial=any(it[5] for it in items), cell='%s/%s' % (cls, method), outcome=bad is None)
                    acc.maxi('worst_excess_over_estimate/%s/%s' % (cls, method), worst)
                    if bad:
                        acc.violation('C02:%s:dishonest-estimate:%s' % (cls, method), jc,
                                      '%s(%s, method=%s, order=%d)(%r) entry %r: error %.3g > 100 x estimate %.3g + floor %.3g'
                                      % (cls, ridge.describe(spec), method, order, list(orc.x), bad[0], bad[1], bad[2], bad[3]),
                                      rank=n * 100 + m)
    return acc


# ---------------------------------------------------------------------------------------------
# the record of an object whose function was assigned after construction describes the function it holds NOW

def work_fun_assigned(chunk):
    import warnings
    import numdifftools as nd
    from mc.props import c04
    acc = fw.Acc()
    f, hess, size = c04.quartic(3)
    x = np.array([0.3, 0.4, 0.5])
    H = hess(x)

    def other(t):
        return np.dot(t, t) + np.exp(0.1 * t[0])
    for entry, method, start in chunk:
        fw.fresh_library_state()
        case = ('fun-assigned', entry, method, start)
        jc = dict(kind='fun-assigned', entry=entry, method=method, start=start)
        try:
            with warnings.catch_warnings():
                warnings.simplefilter('ignore')
                with np.errstate(all='ignore'):
                    obj = getattr(nd, entry)(None if start == 'None' else other, method=method, full_output=True)
                    if start == 'used-with-other-function':
                        obj(x)
                    obj.fun = f
                    val, info = obj(x)
        except Exception as e:      # noqa: BLE001
            acc.case(case, nontrivial=True, cell='fun-assigned/%s' % entry, outcome='raised')
            acc.violation('C02:%s:no-record:raised-%s:fun-assigned-after-construction' % (entry, type(e).__name__), jc,
                          '%s built with %s, then .fun = f: %s: %s' % (entry, start, type(e).__name__, e), 1)
            continue
        val, est = np.asarray(val), np.abs(np.asarray(info.error_estimate, dtype=float))
        want = H if entry == 'Hessian' else np.diag(H)
        prob = None
        if not (np.size(info.f_value) == 1 and float(np.ravel(info.f_value)[0]) == float(f(x))):
            prob = ('f_value', 'info.f_value = %r but f(x) = %r for the function the object holds' % (np.asarray(info.f_value).tolist(), float(f(x))))
        elif val.shape != want.shape or est.size != val.size:
            prob = ('record-size', 'result %r, error_estimate %r' % (val.shape, est.shape))
        else:
            err = np.abs(val - want)
            bad = ~(err <= K1 * est.reshape(val.shape) + 1e-3 * size(x))
            if bad.any():
                i = tuple(np.argwhere(bad)[0])
                prob = ('dishonest-estimate', 'entry %r: value %r, exact %r, error %.3g > %g x estimate %.3g + floor %.3g'
                        % (i, float(val[i]), float(want[i]), float(err[i]), K1, float(est.reshape(val.shape)[i]), 1e-3 * size(x)))
        acc.case(case, nontrivial=True, cell='fun-assigned/%s' % entry, outcome=prob is None)
        if prob:
            acc.violation('C02:%s:%s:fun-assigned-after-construction' % (entry, prob[0]), jc,
                          '%s(method=%r) built with %s, then .fun = f (quartic polynomial), called at %r: %s'
                          % (entry, method, start, x.tolist(), prob[1]), 1)
    return acc


_run_multi_hess = run_multi


def run_multi(ctx):
    from mc.props import c03
    from mc.oracle import ridge
    acc = _run_multi_hess(ctx)
    sp = [s for s in c03.specs(ctx) if s[0] == 'ridge' and s[1] != 'matrix']
    mat = [s for s in c03.specs(ctx) if s[0] == 'ridge' and s[1] == 'matrix']      # matrix-valued f: (m, n, k) records
    if ctx.quick:
        sp = sp[ctx.seed % 3::3]
        mat = [s for s in mat if (s[2] + s[3] + s[4] + ctx.seed) % 3 == 0]     # a third of them, every m, n, k present
    sp = sp + mat
    items = [(s, p) for s in sp for p in ridge.POINT_KINDS]
    acc.merge(ctx.pmap(work_jac, items, chunk=4, tier=ctx.tier))
    from mc.props import c04
    acc.merge(ctx.pmap(work_fun_assigned, [(e, m, st) for e in ('Hessian', 'Hessdiag') for m in c04.METHODS for st in c04.FUN_STARTS], chunk=3))
    return acc
