"""C05 - the user function is evaluated only at admissible points (DESIGN 5/C05).

Engine E1: full product of (class, method, n, order, dimension, generator option vector with a
bounded number of deviations, x); the user function is a recording wrapper; the oracle is a set of
exact predicates on the recorded arguments.
"""
import itertools

import numpy as np

from mc import framework as fw
from mc.enum import deviations, GEN_MENUS, resolve_gen_options

EPS = np.finfo(float).eps
LEVEL = 'exploration'

XS = {'a': 0.7, 'b': -3.0, 'z': 0.0, 'c': 50.0,
      # huge coordinates: small steps fall below the spacing of the floats at x (x + h == x is admissible, the other
      # side of x is not)
      'N': -1e15, 'P': 1e15}


def make_x(tag, dim):
    base = XS[tag]
    if tag == 'z':
        return np.zeros(dim)
    return base + 0.1 * np.arange(dim)


CLASSES = ['Derivative', 'Gradient', 'Jacobian', 'Hessdiag', 'Hessian']


def methods_of(cls):
    if cls == 'Hessian' or cls == 'Hessdiag':
        return ['central', 'central2', 'forward', 'backward', 'complex', 'multicomplex']
    return ['central', 'forward', 'backward', 'complex', 'multicomplex']


def configs(ctx):
    """(cls, method, n, order) cells."""
    out = []
    for cls in CLASSES:
        for method in methods_of(cls):
            if cls == 'Derivative':
                ns = [1, 2] if method == 'multicomplex' else [1, 2, 3, 4, 5, 6]
            elif cls in ('Gradient', 'Jacobian'):
                ns = [1]
            else:
                ns = [2]
            orders = [None] if cls == 'Hessian' else list(range(1, 9))
            for n in ns:
                for order in orders:
                    out.append((cls, method, n, order))
    return out


def generators(ctx):
    """('default'|'scalar'|'Min'|'Max', options)"""
    out = [('default', {}), ('scalar', {'step': 0.1}), ('scalar', {'step': 1e-3})]
    maxdev = 1 if ctx.quick else 2
    for cls in ('Min', 'Max'):
        menus = dict(GEN_MENUS)
        if cls == 'Max':
            menus = dict(menus)
            menus['num_steps'] = [None] + menus['num_steps']
        for opts in deviations(menus, maxdev):
            out.append((cls, opts))
    return out


# ---------------------------------------------------------------------------------------------

class Recorder(object):
    """Everywhere-defined polynomial accepting float, complex and Bicomplex arguments."""

    def __init__(self, kind, form=None, x0=None):
        self.kind = kind
        self.args = []
        self.form = form        # None | 'nan-at-x' | 'inf-at-x' | 'nan-all': what f returns (not where it is evaluated)
        self.x0 = x0

    def __call__(self, x):
        r = self._value(x)
        if self.form is None:
            return r
        from numdifftools.multicomplex import Bicomplex
        at_x = (not isinstance(x, Bicomplex)) and np.shape(x) == np.shape(self.x0) and bool(np.all(np.asarray(x) == self.x0))
        if self.form == 'nan-all' or (self.form == 'nan-at-x' and at_x):
            return r * float('nan')
        if self.form == 'inf-at-x' and at_x:
            return r * 0.0 + float('inf')
        return r

    def _value(self, x):
        from numdifftools.multicomplex import Bicomplex
        if isinstance(x, Bicomplex):
            self.args.append((np.array(x.z1, dtype=complex, copy=True),
                              np.array(x.z2, dtype=complex, copy=True)))
        else:
            self.args.append((np.array(x, dtype=complex, copy=True), None))
        if self.kind == 'elementwise':
            return x * x * x + 0.5 * x * x + 2.0 * x
        if self.kind == 'vector':      # R^n -> R^n, Jacobian
            return x * x + 2.0 * x
        # scalar function of a vector
        n = len(x)
        s = 0.0
        for i in range(n):
            s = s + (1.0 + 0.5 * i) * x[i] * x[i] * x[i] + x[i]
            if i + 1 < n:
                s = s + x[i] * x[i + 1]
        return s


def build(cls, method, n, order, gen, rec):
    import numdifftools as nd
    from numdifftools.step_generators import MinStepGenerator, MaxStepGenerator
    gkind, gopts = gen
    kw = dict(method=method)
    if cls == 'Derivative':
        kw['n'] = n
    if order is not None:
        kw['order'] = order
    if gkind == 'scalar':
        kw['step'] = gopts['step']
    elif gkind == 'Min':
        kw['step'] = MinStepGenerator(**resolve_gen_options('Min', gopts))
    elif gkind == 'Max':
        kw['step'] = MaxStepGenerator(**resolve_gen_options('Max', gopts))
    return getattr(nd, cls)(rec, **kw)


def check_args(cls, method, n, x, rec_args, hmax, first_order):
    """Return list of (kind, detail) violations.  x: 1-d float array; hmax: per-coordinate array."""
    bad = []
    x = np.asarray(x, dtype=complex if np.iscomplexobj(x) else float)
    width = 2.0 if (cls == 'Hessian' or method == 'central2') else 1.0
    tol = 4 * EPS * (np.abs(x) + width * hmax)
    offs = []
    for z1, z2 in rec_args:
        z1 = np.ravel(z1)
        d = z1 - x
        re = d.real
        mod = np.abs(d)
        if z2 is not None:
            mod = np.maximum(mod, np.abs(np.ravel(z2)))
        moved = mod > 0
        offs.append(re)
        # bounded offsets
        if np.any(mod > width * hmax * (1 + 8 * EPS) + tol):
            bad.append(('too-far', 'argument %r is farther than %g x max step %r from x=%r'
                        % (z1.tolist(), width, hmax.tolist(), x.tolist())))
        # one / two coordinates at a time
        if cls in ('Gradient', 'Jacobian', 'Hessdiag') and moved.sum() > 1:
            bad.append(('many-coordinates', 'argument %r moves %d coordinates (x=%r)'
                        % (z1.tolist(), int(moved.sum()), x.tolist())))
        if cls == 'Hessian' and moved.sum() > 2:
            bad.append(('many-coordinates', 'argument %r moves %d coordinates (x=%r)'
                        % (z1.tolist(), int(moved.sum()), x.tolist())))
        if method == 'forward' and np.any(re < 0):
            bad.append(('below-x', 'forward evaluated at %r below x=%r' % (z1.real.tolist(), x.tolist())))
        if method == 'backward' and np.any(re > 0):
            bad.append(('above-x', 'backward evaluated at %r above x=%r' % (z1.real.tolist(), x.tolist())))
        if method == 'multicomplex' or (first_order and
                                        cls in ('Derivative', 'Gradient', 'Jacobian')):
            if np.any(re != 0):
                bad.append(('real-part-moved', '%s evaluated at real part %r != x=%r'
                            % (method, z1.real.tolist(), x.tolist())))
    if method in ('central', 'central2'):
        nz = [o for o in offs if np.any(o != 0)]
        used = [False] * len(nz)
        for i, o in enumerate(nz):
            if used[i]:
                continue
            for j in range(len(nz)):
                if j != i and not used[j] and np.all(np.abs(nz[j] + o) <= tol):
                    used[i] = used[j] = True
                    break
            else:
                bad.append(('asymmetric', 'central evaluation offset %r has no mirror image '
                            '(x=%r)' % (o.tolist(), x.tolist())))
                break
    return bad


def complex_first_order(method, n, order):
    """Oracle-side: the documented 'default first-derivative complex rule' (truncation order 2)."""
    if method != 'complex' or n != 1:
        return False
    return order is None or order < 4


def run_case(case, form=None, xshape=None, ximag=None):
    """Returns (status, violations, n_args) for one case."""
    (cls, method, n, order), gen, dim, xtag = case
    import numdifftools.finite_difference as fdm
    fw.fresh_library_state()
    x = make_x(xtag, dim)
    if ximag is not None:
        x = x + 1j * ximag          # a complex point (an analytic f can be differentiated there with real steps)
    kind = {'Derivative': 'elementwise', 'Jacobian': 'vector'}.get(cls, 'scalarfun')
    rec = Recorder(kind, form, x.copy())
    import warnings
    status = 'ok'
    obj = None
    with warnings.catch_warnings():
        warnings.simplefilter('ignore')
        try:
            obj = build(cls, method, n, order, gen, rec)
            if xshape is None:
                obj(x)
            else:       # the same point as an n x m array / nested list (documented for Gradient: n * m variables)
                xin = x.reshape(xshape[1])
                obj(xin.tolist() if xshape[0] == 'nested-list' else xin)
        except ValueError:
            status = 'ValueError'
        except Exception as e:  # not C05's subject; the evaluated points still are
            status = type(e).__name__
        if obj is None:
            return status, [], 0
        try:
            steps = list(obj.step(x, method, obj.n, obj.method_order))
        except Exception:
            steps = []
    if not steps:
        if rec.args and any(np.any(a[0] != x) for a in rec.args):
            return status, [('no-steps', 'function evaluated off x although no step was generated')], len(rec.args)
        return status, [], len(rec.args)
    hmax = np.max(np.abs(np.array([np.ones(dim) * s for s in steps])), axis=0)
    bad = check_args(cls, method, n, x, rec.args, hmax, complex_first_order(method, n, order))
    return status, bad, len(rec.args)


def work(chunk):
    acc = fw.Acc()
    for case in chunk:
        (cls, method, n, order), gen, dim, xtag = case
        status, bad, nargs = run_case(case)
        acc.case(case, nontrivial=(nargs >= 2), cell='%s/%s' % (cls, method),
                 outcome=(status, nargs))
        acc.count('status:' + status)
        for kind, detail in bad[:1]:
            acc.violation('C05:%s:%s:%s' % (cls, method, kind),
                          {'cfg': [cls, method, n, order], 'gen': list(gen), 'dim': dim, 'x': xtag},
                          detail, rank=dim * 100 + (order or 0) + n)
    return acc


# ---------------------------------------------------------------------------------------------
# Gradient at an n x m point ("fun is assumed to be a function of n * m variables"): still one coordinate at a time

XSHAPES = [('array', (2, 2)), ('array', (2, 3)), ('nested-list', (2, 2)), ('array', (3, 1)), ('array', (1, 4))]


def shape_cases():
    return [((('Gradient', method, 1, order), gen, int(np.prod(shp[1])), xt), shp)
            for method in methods_of('Gradient') for order in (2, 4) for gen in (('default', {}), ('scalar', {'step': 1e-3}))
            for xt in ('a', 'z') for shp in XSHAPES]


def work_shapes(chunk):
    acc = fw.Acc()
    for case, shp in chunk:
        (cls, method, n, order), gen, dim, xtag = case
        status, bad, nargs = run_case(case, None, shp)
        acc.case(('xshape', case, shp), nontrivial=(nargs >= 2), cell=['xshape/%s%r' % shp], outcome=(status, nargs, not bad))
        if status != 'ok' and not bad:
            bad = [('raised-' + status, 'the call raised %s' % status)]
        for kind, detail in bad[:1]:
            acc.violation('C05:%s:%s:%s:x-given-as-%s' % (cls, method, kind, shp[0]),
                          {'cfg': [cls, method, n, order], 'gen': list(gen), 'dim': dim, 'x': xtag, 'xshape': [shp[0], list(shp[1])]},
                          'x given as %s of shape %r: %s' % (shp[0], shp[1], detail), rank=dim * 100 + (order or 0) + n)
    return acc


# ---------------------------------------------------------------------------------------------
# complex points with the real-step methods: the displacement clauses (distance, one / two coordinates, real and correctly
# signed displacement) read the same; the point keeps its imaginary part

def complex_cases():
    return [((cls, method, 1 if cls in ('Derivative', 'Gradient', 'Jacobian') else 2, None if cls == 'Hessian' else 2), gen,
             1 if cls == 'Derivative' else 2, xt)
            for cls in CLASSES for method in ('central', 'forward', 'backward') for gen in (('default', {}), ('scalar', {'step': 1e-3}))
            for xt in ('a', 'z')]


def work_complex_points(chunk):
    acc = fw.Acc()
    for case in chunk:
        (cls, method, n, order), gen, dim, xtag = case
        status, bad, nargs = run_case(case, None, None, 2.0)
        acc.case(('complex-x', case), nontrivial=(nargs >= 2), cell=['complex-x/%s' % cls], outcome=(status, nargs, not bad))
        for kind, detail in bad[:1]:
            acc.violation('C05:%s:%s:%s:complex-point' % (cls, method, kind),
                          {'cfg': [cls, method, n, order], 'gen': list(gen), 'dim': dim, 'x': xtag, 'ximag': 2.0},
                          'x = point + 2j: %s' % detail, rank=dim * 100 + n)
    return acc


# ---------------------------------------------------------------------------------------------
# where f is evaluated does not depend on what f returns: a function that is undefined (NaN / inf) at x itself - a
# removable singularity - or everywhere is still evaluated at admissible points only

VALUE_FORMS = ['nan-at-x', 'inf-at-x', 'nan-all']


def value_cases():
    out = []
    for cls in CLASSES:
        for method in methods_of(cls):
            ns = ([1, 2] if method == 'multicomplex' else [1, 2, 3]) if cls == 'Derivative' else [1 if cls in ('Gradient', 'Jacobian') else 2]
            for n in ns:
                for order in ([None] if cls == 'Hessian' else [2]):
                    for gen in (('default', {}), ('scalar', {'step': 1e-3})):
                        for dim in ((1,) if cls == 'Derivative' else (1, 3)):
                            for xt in ('a', 'z'):
                                for form in VALUE_FORMS:
                                    out.append((((cls, method, n, order), gen, dim, xt), form))
    return out


def work_values(chunk):
    acc = fw.Acc()
    for case, form in chunk:
        (cls, method, n, order), gen, dim, xtag = case
        status, bad, nargs = run_case(case, form)
        acc.case(('values', case, form), nontrivial=(nargs >= 2), cell=['values/%s' % form, 'values/%s' % cls], outcome=(status, nargs, not bad))
        acc.count('values-status:' + status)
        for kind, detail in bad[:1]:
            acc.violation('C05:%s:%s:%s:f-%s' % (cls, method, kind, form),
                          {'cfg': [cls, method, n, order], 'gen': list(gen), 'dim': dim, 'x': xtag, 'values': form},
                          'f returning %s: %s' % (form, detail), rank=dim * 100 + (order or 0) + n)
    return acc


# ---------------------------------------------------------------------------------------------
# the configuration in force is the one at call time: an object whose method / order / n was assigned after
# construction must evaluate f exactly where a freshly built object of the final configuration does

def setter_cases():
    out = []
    for cls in ('Derivative', 'Gradient', 'Jacobian', 'Hessdiag'):
        ms = ['central', 'forward', 'backward']
        for m0 in ms:
            for m1 in ms:
                if m0 == m1:
                    continue
                out.append((cls, (m0, 1 if cls != 'Hessdiag' else 2, 2), (m1, 1 if cls != 'Hessdiag' else 2, 2)))
        out.append((cls, ('complex', 1 if cls != 'Hessdiag' else 2, 4), ('complex', 1 if cls != 'Hessdiag' else 2, 2)))
        out.append((cls, ('central', 1 if cls != 'Hessdiag' else 2, 2), ('central', 1 if cls != 'Hessdiag' else 2, 4)))
    for n0, n1 in ((1, 2), (2, 1), (3, 2), (2, 5)):
        for m in ('central', 'forward', 'backward', 'complex'):
            out.append(('Derivative', (m, n0, 2), (m, n1, 2)))
    return out


def work_setters(chunk):
    """the admissibility predicates of the configuration IN FORCE at call time, for objects whose method / order / n was
    assigned after construction"""
    import warnings
    acc = fw.Acc()
    for cls, cfg0, cfg1 in chunk:
        kind = {'Derivative': 'elementwise', 'Jacobian': 'vector'}.get(cls, 'scalarfun')
        dim = 1 if cls == 'Derivative' else 2
        x = make_x('a', dim)
        fw.fresh_library_state()
        rec = Recorder(kind)
        bad, status = [], 'ok'
        with warnings.catch_warnings():
            warnings.simplefilter('ignore')
            try:
                obj = build(cls, cfg0[0], cfg0[1], cfg0[2], ('default', {}), rec)
                if cfg1[0] != cfg0[0]:
                    obj.method = cfg1[0]
                if cfg1[2] != cfg0[2]:
                    obj.order = cfg1[2]
                if cfg1[1] != cfg0[1]:
                    obj.n = cfg1[1]
                obj(x)
                steps = list(obj.step(x, cfg1[0], obj.n, obj.method_order))
                hmax = np.max(np.abs(np.array([np.ones(dim) * s for s in steps])), axis=0)
                bad = check_args(cls, cfg1[0], cfg1[1], x, rec.args, hmax, complex_first_order(cfg1[0], cfg1[1], cfg1[2]))
            except Exception as e:      # noqa: BLE001
                status = type(e).__name__
        acc.case(('setter', cls, cfg0, cfg1), nontrivial=len(rec.args) >= 2, cell='setter/%s' % cls, outcome=(status, not bad))
        for kind_, detail in bad[:1]:
            acc.violation('C05:%s:%s:%s:after-attribute-assignment' % (cls, cfg1[0], kind_),
                          dict(kind='setter', cls=cls, built=list(cfg0), assigned=list(cfg1)),
                          '%s built with (method, n, order) = %r and then assigned %r: %s' % (cls, cfg0, cfg1, detail), rank=1)
    fw.fresh_library_state()
    return acc


def enumerate_cases(ctx):
    cfgs = configs(ctx)
    gens = generators(ctx)
    dims = [1, 2, 3] if ctx.quick else [1, 2, 3, 4, 5]
    xtags = (ctx.rotate(['a', 'b', 'z', 'c'], 2) + ['N', 'P']) if ctx.quick else ['a', 'b', 'z', 'c', 'N', 'P']
    cases = []
    for cfg in cfgs:
        cls = cfg[0]
        for gen in gens:
            # quick: generator deviations are crossed with every config, dims {1, 3} only for them
            for dim in dims:
                if cls == 'Hessian' and dim > 4:
                    continue
                if ctx.quick and gen[0] in ('Min', 'Max') and gen[1] and dim == 2:
                    continue
                for xt in xtags:
                    cases.append((cfg, gen, dim, xt))
    return cases


def run(ctx):
    cases = enumerate_cases(ctx)
    acc = ctx.pmap(work, cases)
    acc.merge(ctx.pmap(work_setters, setter_cases(), chunk=4))
    acc.merge(ctx.pmap(work_values, value_cases(), chunk=30))
    acc.merge(ctx.pmap(work_shapes, shape_cases(), chunk=20))
    acc.merge(ctx.pmap(work_complex_points, complex_cases(), chunk=10))
    for c in cases[:3] + cases[len(cases) // 2:len(cases) // 2 + 3]:
        acc.sample({'cfg': c[0], 'gen': c[1], 'dim': c[2], 'x': make_x(c[3], c[2])})
    cells = ['%s/%s' % (cls, m) for cls in CLASSES for m in methods_of(cls)] + ['setter/Derivative', 'setter/Jacobian'] + \
        ['values/%s' % f for f in VALUE_FORMS] + ['values/%s' % c for c in CLASSES] + ['xshape/%s%r' % shp for shp in XSHAPES] + ['complex-x/%s' % c for c in CLASSES]
    rule = ('full product (class, method, n, order) x generator option vectors with <= %d deviations '
            'from the defaults (+ default, scalar steps) x dimension x x-pool; every argument passed '
            'to the recording user function is checked against exact admissibility predicates; '
            'a case is non-trivial when the function was evaluated at >= 2 points; cases are '
            'distinct by construction of the product (digest of the case tuple).'
            % (1 if ctx.quick else 2))
    return fw.finish(ctx, acc, LEVEL, rule, exhaustive=True, required_cells=cells,
                     assumptions=['floating additions x+-h are allowed 4 ulp of |x|+h when matching '
                                  'mirror images', 'largest generated step is taken from the '
                                  "object's own public step generator"])


def replay(case):
    fw.setup_paths()
    if case.get('kind') == 'setter':
        a = work_setters([(case['cls'], tuple(case['built']), tuple(case['assigned']))])
        bad = [r['detail'] for k, (n, recs) in a.viol.items() for r in recs]
        return not bad, '%r -> %s' % (case, bad or 'all evaluation points admissible for the assigned configuration')
    cfg = tuple(case['cfg'])
    gen = (case['gen'][0], case['gen'][1])
    c = (cfg, gen, case['dim'], case['x'])
    xs = case.get('xshape')
    status, bad, nargs = run_case(c, case.get('values'), None if xs is None else (xs[0], tuple(xs[1])), case.get('ximag'))
    text = 'case=%r status=%s evaluations=%d violations=%r' % (c, status, nargs, bad[:3])
    return (not bad), text
