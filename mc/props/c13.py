"""C13 - dea3 recovers the limit of a geometric transient and never produces garbage (DESIGN 5/C13).

E1, three enumerated sub-spaces merged into one run:
 (a) geometric transients  L + a q^k  (terms formed exactly in Fractions, rounded once),
 (b) all triples over the special-value alphabet V (ties, zeros, extreme magnitudes),
 (c) arrays of shapes (), (1,), (5,), (2, 3) filled from (b), with and without symmetric=True.

Oracle (no library code): the exact Shanks transform of the FLOAT triple in Fractions

    S = e1 + 1/sss,   sss = 1/d2 - 1/d1,   d1 = e1 - e0,   d2 = e2 - e1      ( = (e0 e2 - e1^2)/(e0 - 2 e1 + e2) )

the documented guards evaluated exactly, a first-order running-error bound R of the three-term
formula, and (transients only) the amplification A of the three input roundings through the exact
partial derivatives  dS/de0 = d2^2/D^2, dS/de1 = -2 d1 d2/D^2, dS/de2 = d1^2/D^2,  D = d2 - d1.
"""
import itertools
import warnings
from fractions import Fraction

import numpy as np

from mc import framework as fw

LEVEL = 'exploration'
EPS = float(np.finfo(float).eps)
U = Fraction(1, 2 ** 53)            # unit roundoff
EPSQ = Fraction(1, 2 ** 52)
TINYQ = Fraction(float(np.finfo(float).tiny))
THR = Fraction(1.0e-4)              # the float constant of the irregular-behaviour guard, exactly
C_ALLOW = 10

# ---------------------------------------------------------------------------------------------
# alphabets

A_L = [0.0, 1.0, -1.0, 1e-15, -1e-15, 1e15, -1e15, 3.7]
A_A = [1.0, -1.0, 1e-15, -1e-15, 1e15, -1e15, 1e-10]
A_Q = [-49.0, -10.0, -2.0, -1.5, -1.0, -0.9, -0.5, -0.1, 0.1, 0.5, 0.9, 0.99, 1.01, 1.1, 2.0, 10.0, 49.0]
A_K = [0, 1, 2, 5]

_MAGS = [1.0, 1.0 + EPS, 1.0 - EPS, 1.0 - EPS / 2, 2.0, 1e15, 1e-15, 1e150, 1e-150, 3.7, 1e-300]
V = [0.0, -0.0] + [s * m for m in _MAGS for s in (1.0, -1.0)]          # 24 values
SHAPES = [(), (1,), (5,), (2, 3)]


def transient_terms(L, a, q, k):
    """exact terms t_k, t_k+1, t_k+2 (Fractions of the float parameters) and their single rounding"""
    Lq, aq, qq = Fraction(L), Fraction(a), Fraction(q)
    t = [Lq + aq * qq ** (k + i) for i in range(3)]
    return t, [float(x) for x in t]


# ---------------------------------------------------------------------------------------------
# oracle

def oracle(e):
    """Exact analysis of the float triple e.  Returns a dict with
    zone: 'converged' | 'irregular' | 'ambiguous' | 'outside'
    S (Fraction or None), R (running-error bound, Fraction or None), valid (first-order analysis
    of the formula applicable), D"""
    f0, f1, f2 = (Fraction(x) for x in e)
    d1, d2 = f1 - f0, f2 - f1
    tol1 = max(abs(f1), abs(f0)) * EPSQ
    tol2 = max(abs(f2), abs(f1)) * EPSQ
    D = d2 - d1
    out = dict(d1=d1, d2=d2, D=D, S=None, R=None, valid=False, tie=(d1 == 0 or d2 == 0))
    if D != 0:
        out['S'] = f1 + (d1 * d2) / (d1 - d2)
    if abs(d1) <= tol1 or abs(d2) <= tol2:
        # (a difference below _TINY is replaced by _TINY in the code; in the alphabet that only
        # happens for an exact tie, which is inside this guard)
        out['zone'] = 'converged'
        return out
    sss = 1 / d2 - 1 / d1
    if sss == 0:
        out['zone'] = 'irregular'          # arithmetic progression: Shanks undefined, sss = _TINY
        return out
    i1, i2, asss = abs(1 / d1), abs(1 / d2), abs(sss)
    rho = (2 * U * (i1 + i2) + 2 * U * asss + TINYQ) / asss     # relative error of computed sss
    g = abs(sss * f1)
    margin = rho + 4 * U
    if g <= THR * (1 - min(margin, 1)):
        out['zone'] = 'irregular'
    elif g < THR * (1 + margin):
        out['zone'] = 'ambiguous'
    else:
        out['zone'] = 'outside'
    S = f1 + 1 / sss
    out['S'] = S
    # running error: differences (u each), reciprocals (u each), their difference (u) and the
    # added _TINY (u + _TINY) -> absolute error of sss <= 2u(|1/d1|+|1/d2|) + 2u|sss| + _TINY;
    # through 1/sss: that /sss^2, plus u|1/sss| for the reciprocal; final sum: u|S|.
    out['R'] = (2 * U * (i1 + i2) + 2 * U * asss + TINYQ) / (sss * sss) + U / asss + U * abs(S)
    out['valid'] = rho <= Fraction(1, 4)
    out['rho'] = rho
    return out


def input_amplification(e, orc):
    """Rigorous mean-value bound of |S(e) - S(t)| for |e_i - t_i| <= u|t_i|: the exact partial
    derivatives with numerators maximised and D minimised over the rounding box.  None if the
    transient is not resolved by the float triple (box reaches D = 0)."""
    f0, f1, f2 = (abs(Fraction(x)) for x in e)
    u = U * (1 + 2 * U)                     # |e - t| <= u|t| <= u(1+2u)|e|
    p1, p2 = u * (f0 + f1), u * (f1 + f2)
    pD = u * (f0 + 2 * f1 + f2)
    aD = abs(orc['D'])
    if not 2 * pD <= aD:
        return None
    a1, a2 = abs(orc['d1']) + p1, abs(orc['d2']) + p2
    return u * (a2 * a2 * f0 + 2 * a1 * a2 * f1 + a1 * a1 * f2) / ((aD - pD) ** 2)


def mag_class(e):
    for x in e:
        ax = abs(x)
        if ax >= 1e100 or 0 < ax <= 1e-100:
            return 'extreme-magnitude'
    return 'ordinary-magnitude'


# ---------------------------------------------------------------------------------------------
# library access

def lib_dea3(v0, v1, v2, *pos, **kw):
    from numdifftools.extrapolation import dea3
    with warnings.catch_warnings():
        warnings.simplefilter('ignore')
        with np.errstate(all='ignore'):
            return dea3(v0, v1, v2, *pos, **kw)


def scalar_call(e):
    """-> (result, abserr) python floats, or raises; size must be 1"""
    r, a = lib_dea3(e[0], e[1], e[2])
    r, a = np.asarray(r), np.asarray(a)
    if r.size != 1 or a.size != 1:
        raise _Shape('scalar input gave result shape %r, abserr shape %r' % (r.shape, a.shape))
    return float(r.ravel()[0]), float(a.ravel()[0])


class _Shape(Exception):
    pass


def _fmt(x):
    return repr(float(x))


def check_triple(e, trans=None):
    """All checks for one float triple.  trans = (t_exact list, L Fraction) for part (a).
    Returns (problems [(key-suffix, text)], info dict)."""
    orc = oracle(e)
    zone = orc['zone']
    info = dict(zone=zone, ratio_S=None, ratio_L=None, resolved=False, discriminating=False)
    probs = []
    mc = mag_class(e)
    try:
        res, err = scalar_call(e)
    except _Shape as ex:
        return [('shape:scalar-input', str(ex))], info
    except Exception as ex:
        return [('raised-%s:%s:%s' % (type(ex).__name__, zone, mc),
                 'dea3%r raised %s: %s' % (tuple(e), type(ex).__name__, ex))], info
    info['out'] = (res, err)
    finite = np.isfinite(res) and np.isfinite(err)
    if not np.isfinite(res):
        probs.append(('nonfinite-result:%s:%s' % (zone, mc),
                      'dea3%r result %r for finite input' % (tuple(e), res)))
    if not np.isfinite(err):
        probs.append(('nonfinite-abserr:%s:%s' % (zone, mc),
                      'dea3%r abserr %r for finite input' % (tuple(e), err)))
    if not err >= 0 and not np.isnan(err):
        probs.append(('negative-abserr:%s' % zone, 'dea3%r abserr %r < 0' % (tuple(e), err)))
    if not finite:
        return probs, info

    S, R = orc['S'], orc['R']
    rq = Fraction(res)
    # ---- accuracy against the exact Shanks value of the float triple
    if zone in ('outside', 'ambiguous') and orc['valid']:
        dev = abs(rq - S)
        allow = C_ALLOW * R
        ok = dev <= allow
        if zone == 'ambiguous' and not ok:
            ok = res == e[2]                   # the guard may legitimately have fired
        if zone == 'outside':
            info['ratio_S'] = float(dev / R) if R else 0.0
            info['discriminating'] = allow * 1000 <= abs(S - Fraction(e[2]))
        if not ok:
            probs.append(('shanks-accuracy:%s' % ('outside-guards' if zone == 'outside' else 'guard-boundary'),
                          'dea3%r = %r, exact Shanks of the float triple %s, deviation %.3g > 10 x running-error '
                          'bound %.3g' % (tuple(e), res, _fmt(S), float(dev), float(R))))
    elif zone == 'outside':
        info['illcond'] = True

    # ---- transient: the limit and the honesty of the estimate
    if trans is not None and zone in ('outside', 'converged') and S is not None:
        t, L = trans
        A = input_amplification(e, orc)
        if A is not None and (zone == 'converged' or orc['valid']):
            info['resolved'] = True
            gap = abs(S - L)
            if not gap <= A * (1 + Fraction(1, 1000)):
                raise AssertionError('oracle self-check: |S(e)-L| = %g exceeds the amplification bound %g for %r'
                                     % (float(gap), float(A), e))
            # in the converged zone the formula is not applied: rounding of the returned term only
            Rz = R if zone == 'outside' else U * abs(Fraction(e[2]))
            allow = C_ALLOW * Rz + A
            dev = abs(rq - L)
            if zone == 'outside':
                info['ratio_L'] = float(dev / allow) if allow else 0.0
                info['discriminating'] = allow * 1000 <= min(abs(t[1] - L), abs(t[2] - L))
                if not dev <= allow:
                    probs.append(('limit:outside-guards',
                                  'dea3%r = %r, limit L = %s, error %.3g > allowance %.3g (10 R = %.3g, input '
                                  'amplification %.3g)' % (tuple(e), res, _fmt(L), float(dev), float(allow),
                                                           float(C_ALLOW * R), float(A))))
            short = dev - allow - Fraction(err)
            info['est_margin'] = float(Fraction(err) / dev) if dev else None
            if short > 0:
                probs.append(('abserr-below-true-error:%s' % {'outside': 'outside-guards', 'converged': 'converged-guard'}[zone],
                              'dea3%r abserr %r < true error %.3g - allowance %.3g (L = %s)'
                              % (tuple(e), err, float(dev), float(allow), _fmt(L))))
    return probs, info


# ---------------------------------------------------------------------------------------------
# workers

def work_triples(chunk):
    acc = fw.Acc()
    for case in chunk:
        part = case[0]
        if part == 'a':
            _, L, a, q, k = case
            t, e = transient_terms(L, a, q, k)
            probs, info = check_triple(e, (t, Fraction(L)))
            jc = dict(part='a', L=L, a=a, q=q, k=k, triple=e)
            qcls = 'q<0' if q < 0 else ('0<q<1' if q < 1 else 'q>1')
            mcls = '|q|<1' if abs(q) < 1 else ('|q|=1' if abs(q) == 1 else '|q|>1')
            nontriv = info['zone'] == 'outside' and info['resolved'] and info['discriminating']
            acc.case(case, nontrivial=nontriv, cell=['a:outside:' + qcls, 'a:outside:' + mcls, 'a:start=%d' % k],
                     outcome=info.get('out'))
            acc.cell('a:zone=' + info['zone'])
            if info['zone'] in ('outside', 'converged') and not info['resolved']:
                acc.count('a:transient-not-resolved-by-float-triple')
            if info['zone'] == 'converged' and info['resolved']:
                acc.cell('a:converged-guard:resolved')
            if info['ratio_L'] is not None:
                acc.maxi('a:worst |result-L| / allowance', info['ratio_L'])
            if info.get('est_margin') is not None and info['resolved']:
                acc.maxi('a:smallest abserr/true-error (negated)', -info['est_margin'])
            rank = 1000 * A_K.index(k) + 10 * A_Q.index(q) + A_L.index(L) + 100000 * A_A.index(a)
        else:
            e = list(case[1])
            probs, info = check_triple(e)
            jc = dict(part='b', triple=e)
            nontriv = info['zone'] == 'outside' and info['discriminating']
            tie = e[0] == e[1] or e[1] == e[2]
            acc.case(case, nontrivial=nontriv, cell=['b:outside', 'b:outside:' + mag_class(e)],
                     outcome=info.get('out'))
            acc.cell('b:zone=' + info['zone'])
            if tie:
                acc.cell('b:ties')
            if all(x == 0 for x in e):
                acc.cell('b:all-zero')
            rank = sum(V.index(x) if x != 0 else 0 for x in e)
        if info.get('illcond'):
            acc.count('outside-guards-but-formula-ill-conditioned (accuracy not claimed)')
        if info['ratio_S'] is not None:
            acc.maxi('%s:worst |result-Shanks| / R  (allowance 10)' % part, info['ratio_S'])
        if info['zone'] in ('converged', 'irregular') and info.get('out') is not None:
            acc.count('guard-zone cases returning the last term bit for bit'
                      if info['out'][0] == e[2] else 'guard-zone cases NOT returning the last term')
        for key, text in probs:
            acc.violation('C13:dea3:' + key, jc, text, rank=rank)
    return acc


def work_strict(chunk):
    """the unconditional clause "raises nothing" in a process that runs with warnings turned into errors
    (python -W error, pytest filterwarnings=error): dea3 silences its own divisions by zero and overflows, so the
    caller's filter must not matter.  Every triple of the chunk: no exception, and the same bits as under the
    default filters."""
    from numdifftools.extrapolation import dea3
    acc = fw.Acc()
    for case in chunk:
        e = list(case[1])
        jc = dict(part='strict', triple=e)
        # numpy's own defaults for floating-point events (the workers of this harness run with them ignored)
        with warnings.catch_warnings(), np.errstate(divide='warn', over='warn', invalid='warn', under='ignore'):
            warnings.simplefilter('error')
            try:
                got = dea3(e[0], e[1], e[2])
                prob = None
            except Exception as ex:
                got = None
                prob = ('raised-%s:warnings-as-errors' % type(ex).__name__,
                        'dea3%r with warnings.simplefilter("error") raised %s: %s' % (tuple(e), type(ex).__name__, ex))
        if prob is None:
            try:
                ref = lib_dea3(e[0], e[1], e[2])
                if any(bits(a) != bits(b) for a, b in zip(got, ref)):
                    prob = ('differs:warnings-as-errors', 'dea3%r gives %r under warnings-as-errors, %r otherwise'
                            % (tuple(e), got, ref))
            except Exception:
                pass            # reported by the main pass
        tie = e[0] == e[1] or e[1] == e[2]
        acc.case(('strict',) + tuple(e), nontrivial=True, cell=['strict:warnings-as-errors'] + (['strict:ties'] if tie else []),
                 outcome=prob is None)
        if prob:
            acc.violation('C13:dea3:' + prob[0], jc, prob[1], rank=sum(V.index(x) if x != 0 else 0 for x in e))
    return acc


def bits(x):
    return np.ascontiguousarray(x).tobytes()


def check_array(shape, triples):
    """triples: list of float triples filling an array of the given shape.  -> [(key, text)], n_calls"""
    probs = []
    size = int(np.prod(shape)) if shape else 1
    cols = [np.array([t[i] for t in triples], dtype=float).reshape(shape) for i in range(3)]
    before = [bits(c) for c in cols]
    sname = 'shape=%s' % (shape,)
    calls = 0
    ref = []
    for t in triples:
        try:
            ref.append(scalar_call(t))
        except Exception as ex:          # reported by part (b) with its own key
            return [], calls
        calls += 1
    ref_r = np.array([r for r, _ in ref])
    ref_a = np.array([a for _, a in ref])
    outs = {}
    for sym in (False, True):
        try:
            r, a = lib_dea3(cols[0], cols[1], cols[2], symmetric=sym)
        except Exception as ex:
            probs.append(('raised-%s:array:%s:symmetric=%s' % (type(ex).__name__, sname, sym),
                          'dea3 on arrays of %s symmetric=%s raised %s: %s' % (sname, sym, type(ex).__name__, ex)))
            continue
        calls += 1
        r, a = np.asarray(r), np.asarray(a)
        outs[sym] = (r, a)
        if [bits(c) for c in cols] != before:
            probs.append(('input-modified:array:' + sname, 'an input array of %s was modified by dea3(symmetric=%s)'
                          % (sname, sym)))
            cols = [np.frombuffer(b, dtype=float).reshape(shape).copy() for b in before]
        for c in cols:
            if np.shares_memory(r, c) or np.shares_memory(a, c):
                probs.append(('output-aliases-input:array:' + sname, 'an output shares memory with an input'))
    if False in outs:
        r, a = outs[False]
        want = shape if shape else (1,)
        if not (r.shape == a.shape and (r.shape == want or (shape == () and r.shape == ()))):
            probs.append(('shape:array:' + sname, 'input %s -> result %r abserr %r' % (sname, r.shape, a.shape)))
        elif not (bits(r.ravel()) == bits(ref_r) and bits(a.ravel()) == bits(ref_a)):
            bad = [i for i in range(size) if bits(r.ravel()[i]) != bits(ref_r[i]) or bits(a.ravel()[i]) != bits(ref_a[i])]
            i = bad[0]
            probs.append(('elementwise-mismatch:' + sname,
                          'element %d of a %s call: (%r, %r), scalar call on %r: (%r, %r)'
                          % (i, sname, r.ravel()[i], a.ravel()[i], triples[i], ref_r[i], ref_a[i])))
        # the same terms as (nested) Python lists and as tuples ("array-like"), symmetric given positionally
        if shape:
            for cname, conv in (('lists', lambda c: c.tolist()), ('tuples', lambda c: tuple(c.ravel().tolist()) if c.ndim == 1 else c.tolist())):
                try:
                    r2, a2 = lib_dea3(conv(cols[0]), conv(cols[1]), conv(cols[2]), False)
                    calls += 1
                    if not (bits(np.asarray(r2)) == bits(r) and bits(np.asarray(a2)) == bits(a)):
                        probs.append(('array-like-form-differs:%s:%s' % (cname, sname), 'terms given as %s: (%r, %r), as ndarrays (%r, %r)'
                                      % (cname, np.asarray(r2).tolist(), np.asarray(a2).tolist(), r.tolist(), a.tolist())))
                except Exception as ex:      # noqa: BLE001
                    probs.append(('raised-%s:array-like-form:%s:%s' % (type(ex).__name__, cname, sname),
                                  'dea3 on terms given as %s (%s) raised %s: %s' % (cname, sname, type(ex).__name__, ex)))
        if True in outs:
            rs, as_ = outs[True]
            if len(r) > 1:
                er, ea = r[:-1], a[1:]
            else:
                er, ea = r, a
            if not (rs.shape == er.shape and as_.shape == ea.shape and bits(rs) == bits(er) and bits(as_) == bits(ea)):
                probs.append(('symmetric-trim:' + sname,
                              'symmetric=True gave result %r abserr %r; expected result[:-1], abserr[1:] of the plain '
                              'call (%r, %r)' % (rs.tolist(), as_.tolist(), er.tolist(), ea.tolist())))
    return probs, calls


def work_broadcast(chunk):
    """inputs of different but broadcast-compatible shapes (scalar last term with an array of first terms, a column of
    first terms against a row of last terms): elementwise means every element of the broadcast result equals the scalar
    call on the three values that meet at that position"""
    acc = fw.Acc()
    v0 = np.array([16.0, 4.0, 22.0, 11.5, 8.5])
    menus = [('array-scalar-scalar', v0, 10.0, 7.0),
             ('scalar-array-scalar', 3.5, np.array([3.25, 2.0, 3.5, -1.0]), 3.125),
             ('array-array-scalar', v0, np.array([10.0, 6.0, 14.0, 12.25, 8.75]), 7.0),
             ('column-scalar-row', np.array([[16.0], [4.0]]), 10.0, np.array([7.0, 8.5, 9.25])),
             ('row-column-scalar', np.array([1.0, 2.0, 4.0]), np.array([[1.5], [3.0]]), 2.0)]
    for name, a, b, c in menus:
        prob = None
        try:
            r, e = lib_dea3(a, b, c)
            r, e = np.asarray(r), np.asarray(e)
            ba, bb, bc = np.broadcast_arrays(np.asarray(a, dtype=float), np.asarray(b, dtype=float), np.asarray(c, dtype=float))
            if r.shape != ba.shape or e.shape != ba.shape:
                prob = 'shapes %r / %r for inputs that broadcast to %r' % (r.shape, e.shape, ba.shape)
            else:
                for idx in np.ndindex(ba.shape):
                    sr, se = scalar_call((float(ba[idx]), float(bb[idx]), float(bc[idx])))
                    if bits(np.float64(sr)) != bits(r[idx]) or bits(np.float64(se)) != bits(e[idx]):
                        prob = ('position %r: (%r, %r), scalar call on (%r, %r, %r): (%r, %r)'
                                % (idx, r[idx], e[idx], ba[idx], bb[idx], bc[idx], sr, se))
                        break
        except Exception as ex:      # noqa: BLE001
            prob = 'raised %s: %s' % (type(ex).__name__, ex)
        acc.case(('broadcast', name), nontrivial=True, cell='d:broadcast', outcome=prob is None)
        if prob:
            acc.violation('C13:dea3:broadcast-inputs:' + name, dict(part='d', menu=name), 'dea3 with inputs %s: %s' % (name, prob), 1)
    return acc


def work_arrays(chunk):
    acc = fw.Acc()
    for shape, triples in chunk:
        shape = tuple(shape)
        probs, calls = check_array(shape, triples)
        zones = [oracle(t)['zone'] for t in triples]
        size = len(triples)
        # non-trivial: a (1,)/() array always (it exercises the no-trim rule); larger arrays when the
        # elements do not all sit in the same zone (so element order / mixing is observable)
        nontriv = size == 1 or len(set(zones)) > 1
        acc.case(('c', shape, tuple(map(tuple, triples))), nontrivial=nontriv, n_eval=max(calls, 1),
                 cell=['c:shape=%s' % (shape,), 'c:symmetric:shape=%s' % (shape,)])
        for key, text in probs:
            acc.violation('C13:dea3:' + key, dict(part='c', shape=list(shape), triples=triples), text, rank=size)
    return acc


# ---------------------------------------------------------------------------------------------

def build_cases(ctx):
    a_cases = [('a', L, a, q, k) for L in A_L for a in A_A for q in A_Q for k in A_K]
    b_cases = [('b', t) for t in itertools.product(V, repeat=3)]
    if ctx.quick:
        # quick: all transients; V-triples whose middle value is +-0, 1 or one of 6 seed-rotated other values
        mids = set([0.0, 1.0] + ctx.rotate([v for v in V if v not in (0.0, 1.0)], 6))   # 0.0 == -0.0
        b_cases = [c for c in b_cases if c[1][1] in mids]
    # arrays: the (b) triples in a fixed stride order (so neighbours differ in zone), cut into
    # consecutive groups of 5 and of 6; every triple also as a 0-d and as a (1,) array
    trip = [list(c[1]) for c in b_cases]
    n = len(trip)
    stride = 577                                   # coprime with 24^3 and with 8*24^2
    order = [trip[(i * stride) % n] for i in range(n)] if n % stride else trip
    arr = []
    for shape in SHAPES:
        size = int(np.prod(shape)) if shape else 1
        if ctx.quick and size == 1:
            src = order[::3]
        else:
            src = order
        for i in range(0, len(src) - size + 1, size):
            arr.append((shape, src[i:i + size]))
    return a_cases, b_cases, arr


def run(ctx):
    a_cases, b_cases, arr = build_cases(ctx)
    acc = ctx.pmap(work_triples, a_cases + b_cases, chunk=200)
    acc.merge(ctx.pmap(work_arrays, arr, chunk=100))
    acc.merge(ctx.pmap(work_broadcast, [0], chunk=1))
    acc.merge(ctx.pmap(work_strict, [('b', t) for t in itertools.product(V, repeat=3)], chunk=400))   # all of V^3 in both tiers

    for c in (('a', 1.0, 1.0, 0.5, 0), ('a', 3.7, -1e-15, -0.9, 5), ('a', 1e15, 1.0, 49.0, 2),
              ('b', (1.0, 1.0 + EPS, 2.0)), ('b', (1e150, -1e150, 1e-300)), ('b', (0.0, 0.0, 0.0))):
        if c[0] == 'a':
            t, e = transient_terms(*c[1:])
            probs, info = check_triple(e, (t, Fraction(c[1])))
            acc.sample(dict(part='a', L=c[1], a=c[2], q=c[3], k=c[4], float_triple=e, zone=info['zone'],
                            dea3=info.get('out'), resolved=info['resolved'],
                            err_over_allowance=info['ratio_L']))
        else:
            e = list(c[1])
            orc = oracle(e)
            probs, info = check_triple(e)
            acc.sample(dict(part='b', float_triple=e, zone=info['zone'], dea3=info.get('out'),
                            exact_shanks=None if orc['S'] is None else float(orc['S']),
                            dev_over_R=info['ratio_S']))
    acc.sample(dict(part='c', shape=[2, 3], triples=arr[-1][1], note='plain and symmetric=True call, compared bit '
                    'for bit with the scalar calls'))

    req = ['a:outside:q<0', 'a:outside:0<q<1', 'a:outside:q>1', 'a:outside:|q|<1', 'a:outside:|q|=1',
           'a:outside:|q|>1'] + ['a:start=%d' % k for k in A_K] + \
          ['a:zone=converged', 'a:zone=irregular', 'a:converged-guard:resolved',
           'b:outside', 'b:outside:ordinary-magnitude', 'b:outside:extreme-magnitude',
           'b:zone=converged', 'b:zone=irregular', 'b:zone=outside', 'b:ties', 'b:all-zero'] + \
          ['c:shape=%s' % (s,) for s in SHAPES] + ['c:symmetric:shape=%s' % (s,) for s in SHAPES] + \
          ['strict:warnings-as-errors', 'strict:ties']
    rule = (
        '(a) all %d transients L + a q^k (L x a x q x start index as listed in DESIGN 5/C13; the three terms formed '
        'exactly in Fractions from the float parameters and rounded once); (b) %s triples over the %d-value alphabet '
        'V = {+-0, +-1, +-(1+eps), +-(1-eps), +-(1-eps/2), +-2, +-1e+-15, +-1e+-150, +-3.7, +-1e-300} including all '
        'ties; (c) %d arrays of shapes (), (1,), (5,), (2,3) cut from (b) in a stride order, plain and symmetric=True. '
        'Oracle: exact Shanks value S = e1 + 1/(1/d2 - 1/d1) of the FLOAT triple in Fractions; guards evaluated '
        'exactly: converged <=> |d1| <= eps*max(|e0|,|e1|) or |d2| <= eps*max(|e1|,|e2|) (the float test is exact '
        'there by Sterbenz), irregular <=> |sss*e1| <= 1e-4 (a band of relative width rho+4u around the threshold is '
        '"ambiguous": last term or Shanks both accepted). Outside the guards |result - S| <= 10 R with the '
        'first-order running-error bound R = [2u(|1/d1|+|1/d2|) + 2u|sss| + TINY]/sss^2 + u/|sss| + u|S| (u = '
        '2^-53: roundings of the two differences and the two reciprocals, of their difference and the added TINY, '
        'of the reciprocal of sss, of the final sum), claimed only where the relative error rho = [..]/|sss| of the '
        'computed sss is <= 1/4. Transients: L = S(exact terms); |S(floats) - L| <= A = u(1+2u) * [(|d2|+p2)^2|e0| + '
        '2(|d1|+p1)(|d2|+p2)|e1| + (|d1|+p1)^2|e2|] / (|D|-pD)^2, D = d2-d1 (exact partial derivatives d2^2/D^2, '
        '-2 d1 d2/D^2, d1^2/D^2 maximised over the rounding box; p = box half-widths; the transient counts as '
        'resolved only if 2 pD <= |D|; the bound is self-checked against the exact |S - L|); outside the guards '
        '|result - L| <= 10 R + A; outside the irregular guard abserr >= |result - L| - (10 R + A) (converged '
        'zone: R = u|e2|). Always, for every finite input of the alphabet (|x| <= 1e150, x = 0 or |x| >= 1e-300): no '
        'exception, finite result and abserr, abserr >= 0, input arrays bit-identical afterwards and not aliased by '
        'the outputs, array call == scalar calls element by element bit for bit, output shape == input shape ((1,) '
        'or () for a scalar), symmetric=True == (result[:-1], abserr[1:]) of the plain call (untrimmed for length '
        '1). Non-trivial: (a) outside the guards, resolved, and 10R + A <= 1e-3 * min(|t1-L|, |t2-L|); (b) outside '
        'the guards and 10 R <= 1e-3 |S - e2| (the check tells the extrapolated value from the last term); (c) '
        'size-1 arrays, or arrays whose elements do not all lie in one guard zone.  (d) every (b) triple once more with '
        'warnings turned into errors by the caller: nothing raised, same bits.'
        % (len(a_cases), ('all %d' % len(b_cases)) if not ctx.quick else ('%d (middle value +-0, 1 or one of 6 seed-rotated values of V) of the 13824'
                                                                         % len(b_cases)), len(V), len(arr)))
    return fw.finish(ctx, acc, LEVEL, rule, exhaustive=True, required_cells=req,
                     assumptions=['IEEE binary64 round-to-nearest; Fraction(float) and float(Fraction) are exact / '
                                  'correctly rounded',
                                  'inside the guards only the unconditional clauses are demanded (the property excludes '
                                  'them); how often the last term is returned there is reported, not enforced',
                                  '"moderate magnitude" is taken as the whole alphabet, 1e-300 <= |x| <= 1e150 or x = 0',
                                  'nothing is claimed for values outside the alphabets (sub-normal differences, '
                                  '|x| > 1e150, NaN/inf input)'])


def replay(case):
    part = case['part']
    if part == 'd':
        a = work_broadcast([0])
        probs = [r['detail'] for k, (n, recs) in a.viol.items() for r in recs if r['case'].get('menu') == case.get('menu')]
        return not probs, 'case=%r -> %s' % (case, probs or 'ok')
    if part == 'strict':
        a = work_strict([('b', [float(x) for x in case['triple']])])
        probs = [r['detail'] for k, (n, recs) in a.viol.items() for r in recs]
        return not probs, 'case=%r -> %s' % (case, probs or 'ok')
    if part == 'c':
        probs, _ = check_array(tuple(case['shape']), [[float(x) for x in t] for t in case['triples']])
    elif part == 'a':
        t, e = transient_terms(float(case['L']), float(case['a']), float(case['q']), int(case['k']))
        probs, info = check_triple(e, (t, Fraction(float(case['L']))))
    else:
        probs, info = check_triple([float(x) for x in case['triple']])
    return not probs, 'case=%r -> %s' % (case, probs or 'ok')
