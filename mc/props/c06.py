"""C06 - finite-difference rules are exact to their stated order and match Richardson (DESIGN 5/C06).

E1 over (method, n, order, step_ratio) x every monomial degree; the real LogRule.diff runs in exact
Q(sqrt2, i) arithmetic on t -> t^k, the real float weights rule(step_ratio) are converted exactly.
"""
from fractions import Fraction
import math

import numpy as np

from mc import framework as fw
from mc.oracle.exactnum import QA, F, frac_to_float

LEVEL = 'exploration'
EPS = np.finfo(float).eps
METHODS = ['central', 'forward', 'backward', 'complex']
RATIOS_Q = [1.6, 2.0, 3.0, 4.0, 1.2, 10.0, 0.5]
RATIOS_T = RATIOS_Q + [0.625, 0.25, 1.05, math.e / 2, math.pi / 2, 1.6 + 2.0 ** -30]
ZERO_TOL = 1e-12


def make_exact(h):
    return (h + 1.0) - 1.0


_DCACHE = {}


def dcoefs(rule, kmax):
    """d_k = D_k(1) for t^k at x0 = 0 with the real difference function, exact; homogeneity
    D_k(1/3) == d_k 3^-k is verified exactly.  Returns list of complex floats + flag."""
    diff = rule.diff
    name = diff.__name__
    key = (name, kmax)
    if key in _DCACHE:
        return _DCACHE[key]
    out = []
    homog = True
    x0 = QA(0)
    for k in range(kmax + 1):
        def f(t, k=k):
            return QA.of(t) ** k
        fx0 = f(x0)
        d1 = QA.of(diff(f, fx0, x0, QA(1)))
        d3 = QA.of(diff(f, fx0, x0, QA(Fraction(1, 3))))
        if not (d3 == d1 * QA(Fraction(1, 3 ** k))):
            homog = False
        if not d1.is_real():
            homog = False
        out.append(d1)
    _DCACHE[key] = (out, homog)
    return out, homog


def check_config(method, n, order, ratio):
    """Returns dict(status, problems=[(kind, text)], nontrivial, singular)"""
    import numdifftools.finite_difference as fdm
    fw.fresh_library_state()
    rule = fdm.LogRule(n=n, method=method, order=order)
    mo, rs = rule.method_order, rule.richardson_step
    r_e = make_exact(ratio)
    w = np.asarray(rule.rule(step_ratio=r_e), dtype=float)
    L = len(w)
    kmax = n + mo + 4 * rs
    d, homog = dcoefs(rule, kmax)
    dfl = [float(x) for x in d]
    dmax = max(abs(v) for v in dfl) or 1.0
    nz = [abs(v) > ZERO_TOL * dmax for v in dfl]
    problems = []
    if not homog:
        problems.append(('not-homogeneous', 'difference quotient of t^k is not d_k h^k (or not real)'))
    # the same ratio handed over as a 0-d array, a numpy scalar, a Python float: the same weights, bit for bit
    for fname_, rv in (('0-d ndarray', np.asarray(r_e)), ('numpy scalar', np.float64(r_e)), ('Python float', float(r_e))):
        try:
            w2 = np.asarray(fdm.LogRule(n=n, method=method, order=order).rule(step_ratio=rv), dtype=float)
        except Exception as e:      # noqa: BLE001
            problems.append(('ratio-form:raised-%s' % type(e).__name__, 'rule(step_ratio=%r) [%s] raised %s: %s'
                             % (rv, fname_, type(e).__name__, e)))
            break
        if w2.shape != w.shape or w2.tobytes() != w.tobytes():
            problems.append(('ratio-form:differs', 'rule(step_ratio=%r) [%s] gives %r, with the plain number %r'
                             % (rv, fname_, w2.tolist(), w.tolist())))
            break
    wq = [F(float(v)) for v in w]
    rq = F(r_e)
    inv = 1 / rq
    # exact sums S_k and absolute sums
    S, A = [], []
    for k in range(kmax + 1):
        p = inv ** k
        t = Fraction(1)
        s = Fraction(0)
        a = Fraction(0)
        for wi in wq:
            s += wi * t
            a += abs(wi * t)
            t *= p
        S.append(dfl[k] * frac_to_float(s) if nz[k] else 0.0)
        A.append(abs(dfl[k]) * frac_to_float(a) if nz[k] else 0.0)
    # conditioning of the oracle's own Taylor moment matrix (degrees the rule has to handle)
    degs = [k for k in range(1, kmax + 1) if nz[k]][:L]
    kappa = float('inf')
    if len(degs) == L:
        M = np.array([[dfl[k] * r_e ** (-i * k) / math.factorial(k) for k in degs] for i in range(L)])
        with np.errstate(all='ignore'):
            try:
                kappa = float(np.linalg.cond(M))
            except Exception:
                kappa = float('inf')
    singular = not (100 * EPS * kappa < 0.5)
    # (iii) structural: only the powers Richardson removes remain
    if not nz[n + mo] if n + mo <= kmax else False:
        problems.append(('leading-power', 'difference quotient has no h^%d term: reported method order '
                         '%d cannot be the leading error power' % (n + mo, mo)))
    for k in range(n + mo + 1, kmax + 1):
        if nz[k] and (k - n - mo) % rs != 0:
            problems.append(('unmodelled-power', 'error power h^%d present (d_k=%g) but Richardson models '
                             'order %d + %d j' % (k - n, dfl[k], mo, rs)))
            break
    worst = 0.0
    if not singular:
        fact = float(math.factorial(n))
        for k in range(0, n + mo):
            want = fact if k == n else 0.0
            allow = 100 * EPS * kappa * max(A[k], abs(want))
            res = abs(S[k] - want)
            if allow > 0:
                worst = max(worst, res / allow)
            if res > allow:
                problems.append(('moment', 'sum_j w_j D_%d(h/r^j) = %r, exact derivative %r (allowance %.3g, '
                                 'kappa %.3g)' % (k, S[k], want, allow, kappa)))
                break
        k = n + mo
        allow = 100 * EPS * kappa * A[k]
        if nz[k] and 100 * EPS * kappa < 1e-6 and abs(S[k]) <= allow:
            problems.append(('over-annihilated', 'power h^%d (the reported leading error) is removed by the rule '
                             'itself: S=%g' % (mo, S[k])))
        # (iv) floating-point application: orientation and origin of the convolution
        p4 = check_apply(rule, w, r_e, n, mo, dfl, nz, kappa)
        if p4:
            problems.append(p4)
    return dict(problems=problems, singular=singular, kappa=kappa, worst=worst, L=L,
                name=rule.diff.__name__, mo=mo, rs=rs)


def check_apply(rule, w, r_e, n, mo, dfl, nz, kappa):
    """the float application of the rule to the differences, for step sequences of either sign (a negative step takes
    the differences on the other side; the quotient by h^n is by the SIGNED step)"""
    L = len(w)
    nsteps = L + 2
    for sgn in (1.0, -1.0):
        steps = np.array([sgn * r_e ** (-i) for i in range(nsteps)])
        base_tag = '' if sgn > 0 else ':negative-steps'
        coefs = [1.0] if rule.method in ('complex', 'multicomplex') else [1.0, 1.0 - 0.5j]      # complex-valued polynomials
        for k, coef in [(k_, c_) for k_ in sorted({n, n + mo, max(n - 1, 0)}) for c_ in coefs]:
            tag = base_tag + (':complex-coefficient' if coef != 1.0 else '')

            def f(t, k=k, coef=coef):
                return coef * t ** k
            seq = [rule.diff(f, f(0.0), 0.0, h) for h in steps]
            try:
                der, hh, shape = rule.apply(seq, steps, r_e)
            except Exception as e:
                return ('apply-raised' + tag, 'rule.apply raised %s: %s' % (type(e).__name__, e))
            der = np.ravel(der)
            if len(der) != nsteps - (L - 1):
                return ('apply-length' + tag, 'apply returned %d estimates for %d steps and a %d-term rule'
                        % (len(der), nsteps, L))
            for i in range(len(der)):
                exact = coef * (sum(w[j] * dfl[k] * steps[i + j] ** k for j in range(L)) / steps[i] ** n if nz[k] else 0.0)
                mag = abs(coef) * sum(abs(w[j] * dfl[k] * steps[i + j] ** k) for j in range(L)) / abs(steps[i]) ** n
                allow = 1e3 * EPS * kappa * max(mag, abs(exact)) + 1e-300
                if not abs(der[i] - exact) <= allow:
                    return ('apply-mismatch' + tag, 'apply on t^%d with first step %g gives estimate[%d]=%r, weights '
                            'applied to steps h_i..h_i+%d give %r' % (k, steps[0], i, der[i], L - 1, exact) +
                            (' (polynomial multiplied by %r)' % (coef,) if coef != 1.0 else ''))
    return None


def work(chunk):
    acc = fw.Acc()
    for method, n, order, ratio in chunk:
        case = (method, n, order, ratio)
        try:
            res = check_config(method, n, order, ratio)
        except Exception as e:
            import traceback
            acc.case(case, nontrivial=False)
            acc.violation('C06:%s:exception:%s' % (method, type(e).__name__),
                          dict(method=method, n=n, order=order, ratio=ratio),
                          traceback.format_exc()[-600:], rank=n * 100 + order)
            continue
        cells = ['%s/n%%8=%d' % (method, n % 8), 'diff/' + res['name'],
                 '%s/order%%2=%d' % (method, order % 2)]
        acc.case(case, nontrivial=not res['singular'], cell=cells,
                 outcome=(res['L'], res['mo'], res['rs'], res['name'], res['singular']))
        if res['singular']:
            acc.count('numerically-singular-skipped')
        else:
            acc.maxi('worst_moment_residual_in_allowance_units', res['worst'])
        for kind, text in res['problems'][:1]:
            acc.violation('C06:%s:%s:n%%8=%d' % (method, kind, n % 8),
                          dict(method=method, n=n, order=order, ratio=ratio), text,
                          rank=n * 100 + order)
    return acc


# ---------------------------------------------------------------------------------------------
# rule, difference quotient and Richardson stage must belong to the SAME configuration also when method / order / n
# were assigned after construction: polynomials of degree < n + order stay exact, and the value equals that of an
# object built with the final configuration

def assigned_cases():
    out = []
    real = ['central', 'forward', 'backward']
    for n in (1, 2, 3):
        for m0 in real:
            for m1 in real:
                if m0 != m1:
                    out.append(((m0, n, 2), (m1, n, 2)))
        out.append((('central', n, 2), ('central', n, 4)))
        out.append((('forward', n, 3), ('forward', n, 1)))
        out.append((('complex', n, 2), ('complex', n, 6)))
        out.append((('complex', n, 6), ('complex', n, 2)))
        out.append((('central', n, 2), ('central', n + 1, 2)))
    return out


def work_assigned(chunk):
    """exactness on polynomials of degree < n + order at coarse geometric steps (0.5, 0.25, ...): the extrapolated value
    is exact to rounding if and only if rule, difference quotient and Richardson stage belong to the same configuration"""
    import warnings
    import numdifftools as nd
    from numdifftools.step_generators import MaxStepGenerator
    from mc.oracle import stepmodel as sm
    acc = fw.Acc()
    for cfg0, cfg1 in chunk:
        m1, n1, o1 = cfg1
        prob, worst = None, 0.0
        nsteps = max(sm.rule_length(*cfg0), sm.rule_length(*cfg1)) + 3
        for deg in range(0, n1 + o1):
            coef = 1.0 + 0.25 * deg

            def p(x, deg=deg, coef=coef):
                return coef * (x - 0.25) ** deg
            exact = coef * math.factorial(deg) / math.factorial(deg - n1) * (0.75 - 0.25) ** (deg - n1) if deg >= n1 else 0.0
            size = coef * (0.5 + 0.5) ** deg * 2.0 ** n1 + abs(exact)      # |p| on the stencil over the smallest step^n
            vals = []
            for mode in ('assigned', 'fresh'):
                fw.fresh_library_state()
                with warnings.catch_warnings():
                    warnings.simplefilter('ignore')
                    try:
                        gen = MaxStepGenerator(base_step=0.5, num_steps=nsteps, step_ratio=2, step_nom=1.0)
                        if mode == 'fresh':
                            d = nd.Derivative(p, method=m1, n=n1, order=o1, step=gen)
                        else:
                            d = nd.Derivative(p, method=cfg0[0], n=cfg0[1], order=cfg0[2], step=gen)
                            if cfg0[0] != m1:
                                d.method = m1
                            if cfg0[2] != o1:
                                d.order = o1
                            if cfg0[1] != n1:
                                d.n = n1
                        vals.append(float(np.real(d(0.75))))
                    except Exception as e:      # noqa: BLE001
                        vals.append('raised %s' % type(e).__name__)
            if isinstance(vals[1], str) or not abs(vals[1] - exact) <= 1e-9 * size * 2.0 ** (n1 * nsteps) * 1e-3:
                acc.count('assigned: directly built object not exact on this monomial (not judged)')
                continue
            allow = 1e-7 * size
            err = float('inf') if isinstance(vals[0], str) else abs(vals[0] - exact)
            worst = max(worst, err / allow)
            if not err <= allow and prob is None:
                prob = ('degree %d: after assignment %r, exact %r (an object built directly gives %r)' % (deg, vals[0], exact, vals[1]))
        acc.case(('assigned', cfg0, cfg1), nontrivial=True, cell='assigned/%s' % m1, outcome=prob is None)
        acc.maxi('assigned/worst error over allowance', worst)
        if prob:
            acc.violation('C06:%s:assigned-configuration' % m1, dict(kind='assigned', built=list(cfg0), assigned=list(cfg1)),
                          'Derivative built with (method, n, order) = %r, then assigned %r, steps 0.5 * 2^-i, on the monomials of '
                          'degree < n + order: %s' % (cfg0, cfg1, prob), rank=n1)
    fw.fresh_library_state()
    return acc


def work_alive(chunk):
    """several rule objects alive at the same time: the rule of each is the rule of ITS configuration, also after other
    objects have been constructed (exact moment identities through check_config are for one object at a time)"""
    from numdifftools.finite_difference import LogRule
    acc = fw.Acc()
    cfgs = [('forward', 1, 4), ('central', 1, 1), ('backward', 2, 3), ('central', 2, 6), ('complex', 1, 2), ('forward', 3, 1)]
    for ratio in chunk:
        fw.fresh_library_state()
        alone = {}
        for m, n, o in cfgs:
            fw.fresh_library_state()
            r = LogRule(n=n, method=m, order=o)
            alone[(m, n, o)] = (np.asarray(r.rule(ratio)).tobytes(), r.method_order, r.richardson_step)
        fw.fresh_library_state()
        # the objects kept alive are built with numpy integers for n and order (same rule as with Python ints)
        objs = [(c, LogRule(n=np.int64(c[1]), method=c[0], order=np.int32(c[2]))) for c in cfgs]
        for c, r in objs + objs[::-1]:
            got = (np.asarray(r.rule(ratio)).tobytes(), r.method_order, r.richardson_step)
            same = got == alone[c]
            acc.case(('alive', ratio, c), nontrivial=True, cell='alive', outcome=same)
            if not same:
                acc.violation('C06:%s:rule-of-another-configuration' % c[0], dict(kind='alive', ratio=ratio, cfg=list(c)),
                              'LogRule%r used after other rule objects were constructed: %d weights, method_order %r, richardson_step %r; '
                              'alone: %d weights, method_order %r, richardson_step %r'
                              % (c, len(got[0]) // 8, got[1], got[2], len(alone[c][0]) // 8, alone[c][1], alone[c][2]), 1)
    fw.fresh_library_state()
    return acc


def run(ctx):
    if ctx.quick:
        ratios, nmax = RATIOS_Q, 8
    else:
        ratios, nmax = RATIOS_T, 10
    cases = [(m, n, o, r) for m in METHODS for n in range(1, nmax + 1)
             for o in range(1, nmax + 1) for r in ratios]
    acc = ctx.pmap(work, cases, chunk=20)
    acc.merge(ctx.pmap(work_assigned, assigned_cases(), chunk=3))
    acc.merge(ctx.pmap(work_alive, [2.0, 1.6], chunk=1))
    for c in cases[:2] + cases[len(cases) // 2: len(cases) // 2 + 2] + cases[-2:]:
        acc.sample(dict(method=c[0], n=c[1], order=c[2], step_ratio=c[3]))
    req = ['%s/n%%8=%d' % (m, k) for m in METHODS for k in range(8)] + ['assigned/%s' % m for m in METHODS]
    rule = ('full product methods x n 1..%d x order 1..%d x %d step ratios; for each, every monomial '
            'degree 0..n+method_order+4*richardson_step is pushed through the real LogRule.diff in exact '
            'Q(sqrt2,i) arithmetic and combined with the exactly converted float weights; moment '
            'identities within 100*eps*kappa*sum|w D|, support of the remaining powers exact, float '
            'rule.apply orientation. Non-trivial = moment system numerically non-singular '
            '(100*eps*kappa < 0.5); singular ones are only checked structurally.' % (nmax, nmax, len(ratios)))
    return fw.finish(ctx, acc, LEVEL, rule, exhaustive=True, required_cells=req,
                     assumptions=['_SQRT_J enters at its binary64 value; structural zeros are |d_k| <= 1e-12 max|d|',
                                  'kappa is the 2-norm condition number of the oracle-built moment matrix'])


def replay(case):
    if case.get('kind') == 'alive':
        a = work_alive([case['ratio']])
        bad = [r['detail'] for k, (n, recs) in a.viol.items() for r in recs]
        return not bad, '%r -> %s' % (case, bad or 'ok')
    if case.get('kind') == 'assigned':
        a = work_assigned([(tuple(case['built']), tuple(case['assigned']))])
        bad = [r['detail'] for k, (n, recs) in a.viol.items() for r in recs]
        return not bad, '%r -> %s' % (case, bad or 'same values as an object built directly')
    res = check_config(case['method'], case['n'], case['order'], case['ratio'])
    return not res['problems'], 'case=%r -> %r' % (case, {k: res[k] for k in ('problems', 'singular', 'kappa', 'L', 'mo', 'rs')})
