"""C17 - FFT Taylor coefficients are accurate within their reported error (DESIGN 5/C17).

E1: functions with known series x z0 x n x initial radius x (step_ratio, num_extrap); exact
coefficients from complex jets.  E2: the radius search is a protocol between Taylor.__call__ and its
environment (_check_fft, _poor_convergence); the environment is replaced by scripted answers and
every answer sequence within a bounded number of deviations is replayed against the real code and
against a reference model of the documented protocol.
"""
import itertools
import math
import os
import warnings

import mpmath as mp
import numpy as np

from mc import framework as fw
from mc.oracle import jets
from mc.props import c01_common as cm

LEVEL = 'exploration'
EPS = np.finfo(float).eps
CALIBRATE = bool(os.environ.get('VERIF_CALIBRATE'))
X = ('x',)


def _plus(c, e):
    return ('b', '+', ('c', c), e)


FUNCS = {
    'exp(z)': (('u', 'exp', X), 'entire'),
    'exp(3z)': (('u', 'exp', ('s', 3, X)), 'entire'),
    '1/(2-z)': (('b', '/', ('c', 1.0), ('b', '-', ('c', 2.0), X)), 2.0),
    '1/(-1.5-z)': (('b', '/', ('c', 1.0), ('b', '-', ('c', -1.5), X)), -1.5),
    'sin(2z)': (('u', 'sin', ('s', 2, X)), 'entire'),
    'cos(z)': (('u', 'cos', X), 'entire'),
    'log(3+z)': (('u', 'log', _plus(3.0, X)), -3.0),
    '(2+z)^2.5': (('p', _plus(2.0, X), 2.5), -2.0),
    '(1+z)^-0.5': (('p', _plus(1.0, X), -0.5), -1.0),
    'poly3': (('b', '+', ('b', '-', ('p', X, 3), ('s', 2, ('p', X, 2))), _plus(1.0, ('s', 0.5, X))), 'poly'),
    'poly5': (('b', '-', ('p', X, 5), ('s', 3, ('p', X, 2))), 'poly'),
    'exp(z)/(2-z)': (('b', '/', ('u', 'exp', X), ('b', '-', ('c', 2.0), X)), 2.0),
    'sin(z)exp(z/2)': (('b', '*', ('u', 'sin', X), ('u', 'exp', ('s', 0.5, X))), 'entire'),
    # not real on the real axis (no Schwarz symmetry f(conj z) = conj f(z)): the samples of the lower half circle are
    # not mirror images of those of the upper half, also when z0 is real
    'exp(iz)': (('u', 'exp', ('s', 1j, X)), 'entire'),
    '1/(1.5+1.5i-z)': (('b', '/', ('c', 1.0), ('b', '-', ('c', 1.5 + 1.5j), X)), 1.5 + 1.5j),
}
NO_SCHWARZ = ('exp(iz)', '1/(1.5+1.5i-z)')
Z0S = [0.0, 0.5, -0.3 + 0.4j, 0.2j, 0.9 + 0.1j]
NS = [1, 3, 6, 12, 20, 40, 100]
RS = [1e-5, 1e-3, 0.0059, 0.1, 1.0]
RATIOS = [1.2, 1.6, 2.0, 3.0]
NEXTRAP = [1, 3, 5]


def num_coefs(n):
    """documented table of _num_taylor_coefficients"""
    for lim, m in ((6, 8), (12, 16), (25, 32), (51, 64), (103, 128), (192, 256)):
        if n <= lim:
            return m
    raise ValueError(n)


_EX = {}


def exact_coefs(fname, z0, m):
    key = (fname, z0, m)
    if key not in _EX:
        j = jets.eval_jet(FUNCS[fname][0], z0, m)
        _EX[key] = [complex(v) for v in j]
    return _EX[key]


def max_on_circle(fname, z0, R, npts=48):
    prog = FUNCS[fname][0]
    with mp.workdps(30):
        best = 0.0
        for k in range(npts):
            z = mp.mpmathify(z0) + R * mp.expjpi(2.0 * k / npts)
            try:
                v = abs(jets.mp_eval(prog, z))
            except Exception:
                return float('inf')
            best = max(best, float(v))
    return best


def dist_to_singularity(fname, z0):
    s = FUNCS[fname][1]
    if s in ('entire', 'poly'):
        return float('inf')
    return abs(z0 - s)


def run_taylor(fname, z0, n, r, ratio, nex, which='taylor', **kw):
    from numdifftools import fornberg as ndf
    f = jets.make_fun(FUNCS[fname][0])
    with warnings.catch_warnings():
        warnings.simplefilter('ignore')
        with np.errstate(all='ignore'):
            if which == 'taylor':
                return ndf.taylor(f, z0, n=n, r=r, num_extrap=nex, step_ratio=ratio, full_output=True, **kw)
            # derivative() is also given n as a numpy integer (its results are compared with taylor() x k!)
            return ndf.derivative(f, z0, n=np.int64(n), r=r, num_extrap=nex, step_ratio=ratio, full_output=True, **kw)


def work(chunk):
    acc = fw.Acc()
    for fname, z0, n, r, ratio, nex in chunk:
        case = (fname, z0, n, r, ratio, nex)
        jc = dict(kind='accuracy', f=fname, z0=z0, n=n, r=r, step_ratio=ratio, num_extrap=nex)
        m = num_coefs(n)
        rank = n * 10 + nex
        cell = ['f/' + fname, 'n=%d' % n, 'z0/' + ('complex' if isinstance(z0, complex) else 'real')]
        try:
            coefs, info = run_taylor(fname, z0, n, r, ratio, nex)
            dcoefs, dinfo = run_taylor(fname, z0, n, r, ratio, nex, which='derivative')
        except Exception as e:
            acc.case(case, nontrivial=True, cell=cell, outcome='raised')
            acc.violation('C17:taylor:raised-%s' % type(e).__name__, jc, '%s: %s' % (type(e).__name__, e), rank)
            continue
        coefs = np.asarray(coefs)
        est = np.asarray(info.error_estimate)
        prob = None
        if coefs.size < n + 1 or est.size != coefs.size:
            prob = ('count', '%d coefficients (estimates %d) for n=%d' % (coefs.size, est.size, n))
        # derivative() = coefficients * k!, estimates scaled identically
        if prob is None:
            fact = np.array([float(math.factorial(k)) for k in range(coefs.size)])
            dc, de = np.asarray(dcoefs), np.asarray(dinfo.error_estimate)
            with np.errstate(all='ignore'):
                def close(u, v):
                    u, v = np.asarray(u, dtype=complex), np.asarray(v, dtype=complex)
                    return bool(np.all(np.isclose(u.real, v.real, rtol=1e-12, atol=0, equal_nan=True)) and
                                np.all(np.isclose(u.imag, v.imag, rtol=1e-12, atol=0, equal_nan=True)))
                same = dc.shape == coefs.shape and close(dc, coefs * fact) and close(de, est * fact)
            if not same:
                prob = ('derivative-scaling', 'derivative() is not taylor() times k! (values or estimates)')
            elif (dinfo.degenerate, dinfo.failed, dinfo.iterations) != (info.degenerate, info.failed, info.iterations):
                prob = ('derivative-status', 'derivative() status differs from taylor()')
        status = (bool(info.degenerate), bool(info.failed))
        default_r = (r == 0.0059 and ratio == 1.6 and nex == 3)   # every option at its default
        dist = dist_to_singularity(fname, z0)
        poly = FUNCS[fname][1] == 'poly'
        if prob is None and default_r and n <= 20 and not poly and dist >= 1.5 and (status[0] or status[1]):
            prob = ('status-on-well-behaved', 'default radius, n=%d, analytic within %.3g: degenerate=%r failed=%r'
                    % (n, dist, status[0], status[1]))
        if prob is None and info.failed and info.iterations < 29:
            prob = ('failed-before-cap', 'failed=True after %d iterations (cap 30)' % info.iterations)
        nontrivial = not (status[0] or status[1])
        if prob is None and nontrivial:
            R = float(info.final_radius)
            a = exact_coefs(fname, z0, coefs.size)
            M = max_on_circle(fname, z0, R) if (math.isfinite(R) and R > 0 and R < dist) else float('inf')
            if not math.isfinite(M):
                nontrivial = False      # final circle reaches the singularity: no floor can be stated
            else:
                worst = 0.0
                for k in range(n + 1):
                    err = abs(complex(coefs[k]) - a[k])
                    floor = EPS * M / R ** k
                    e = float(abs(est[k]))
                    if CALIBRATE:
                        if coefs[k] == 0 and err > 0:
                            acc.count('calib-zero-coefficient-returned')
                            continue
                        kk = max(err - 100 * e, 0.0) / floor if floor > 0 else 0.0
                        worst = max(worst, kk)
                        continue
                    K1, K2 = float(cm.ENV['C17']['K1']), float(cm.ENV['C17']['K2'])
                    if not err <= K1 * e + K2 * floor:
                        prob = ('coefficient', 'coefficient %d = %r, exact %r: error %.3g > K1=%g x estimate %.3g + K2=%g x '
                                'eps max|f|/R^k = %.3g (R=%.3g)' % (k, complex(coefs[k]), a[k], err, K1, e, K2, K2 * floor, R))
                        half = 'upper-half-of-fft' if k >= coefs.size // 2 else 'lower-half-of-fft'
                        if not np.isfinite(coefs[k]):
                            prob = ('coefficient-nonfinite-with-clean-status:' + half, prob[1])
                        elif coefs[k] == 0:
                            prob = ('coefficient-returned-as-zero:' + half, prob[1])
                        else:
                            prob = ('coefficient-dishonest:' + half, prob[1])
                        break
                    if e > 0:
                        worst = max(worst, max(err - K2 * floor, 0.0) / e)
                if CALIBRATE:
                    acc.maxi('K/n=%d' % n, (min(worst, 1e300), '%s z0=%r r=%g ratio=%g nex=%d R=%.3g' % (fname, z0, r, ratio, nex, R)))
                else:
                    acc.maxi('worst_excess_over_estimate/n=%d' % n, worst)
        acc.case(case, nontrivial=nontrivial, cell=cell, outcome=(status, prob[0] if prob else None))
        acc.count('status:degenerate=%r,failed=%r' % status)
        if prob and not CALIBRATE:
            zc = 'complex-z0' if isinstance(z0, complex) else 'real-z0'
            acc.violation('C17:taylor:%s:%s:n=%d' % (prob[0], zc, n), jc, 'taylor(%s, z0=%r, n=%d, r=%g, step_ratio=%g, '
                          'num_extrap=%d): %s' % (fname, z0, n, r, ratio, nex, prob[1]), rank)
    return acc


# ---------------------------------------------------------------------------------------------
# one Taylor object, several expansion points (the class is public and callable; taylor() builds a fresh one each time)

REUSE_FUNCS = ['exp(z)', '1/(2-z)', 'sin(2z)', 'exp(z)/(2-z)']
REUSE_SEQS = [[0.0, 0.5, 0.0], [0.5, -0.3 + 0.4j, 0.2j, 0.5], [0.2j, 0.0]]


def work_reuse(chunk):
    from numdifftools import fornberg as ndf
    acc = fw.Acc()
    K1, K2 = float(cm.ENV['C17']['K1']), float(cm.ENV['C17']['K2'])
    for fname, n, si in chunk:
        f0 = jets.make_fun(FUNCS[fname][0])
        seq = REUSE_SEQS[si]
        if si % 2 == 0:
            def f(z, f0=f0):
                # a function written with np.atleast_1d: a scalar argument comes back as a length-1 array
                return np.atleast_1d(f0(z))
        else:
            f = f0
        obj = ndf.Taylor(f, n=n, full_output=True)
        for idx, z0 in enumerate(seq):
            jc = dict(kind='reuse', f=fname, n=n, seq=si, call=idx)
            case = ('reuse', fname, n, si, idx)
            try:
                with warnings.catch_warnings():
                    warnings.simplefilter('ignore')
                    with np.errstate(all='ignore'):
                        coefs, info = obj(z0)
            except Exception as e:      # noqa: BLE001
                acc.case(case, nontrivial=True, cell='reuse/taylor-object', outcome='raised')
                acc.violation('C17:Taylor-object-reuse:raised-%s' % type(e).__name__, jc, 'call %d (z0=%r) of one Taylor(%s, n=%d) '
                              'object raised %s: %s' % (idx + 1, z0, fname, n, type(e).__name__, e), idx)
                break
            coefs, est = np.asarray(coefs), np.asarray(info.error_estimate)
            prob = None
            if info.degenerate or info.failed:
                prob = 'status degenerate=%r failed=%r for a function analytic within %.3g at the default radius' % (
                    info.degenerate, info.failed, dist_to_singularity(fname, z0))
            else:
                R = float(info.final_radius)
                M = max_on_circle(fname, z0, R) if R < dist_to_singularity(fname, z0) else float('inf')
                a = exact_coefs(fname, z0, coefs.size)
                if math.isfinite(M):
                    for k in range(n + 1):
                        err = abs(complex(coefs[k]) - a[k])
                        if not err <= K1 * float(abs(est[k])) + K2 * EPS * M / R ** k:
                            prob = 'coefficient %d = %r, exact %r: error %.3g > K1=%g x estimate %.3g + floor %.3g' % (
                                k, complex(coefs[k]), a[k], err, K1, float(abs(est[k])), K2 * EPS * M / R ** k)
                            break
            acc.case(case, nontrivial=idx > 0, cell='reuse/taylor-object', outcome=prob is None)
            if prob:
                acc.violation('C17:Taylor-object-reuse:coefficient', jc, 'call %d (z0=%r, after calls at %r) of one Taylor(%s, n=%d) '
                              'object: %s' % (idx + 1, z0, seq[:idx], fname, n, prob), idx)
                break
    return acc


# ---------------------------------------------------------------------------------------------
# radius-search protocol with a scripted environment

def model_protocol(script, max_iter, min_iter, num_extrap, r0, ratio):
    """Reference model of the documented radius search.  script[i] in 'L' (needs a larger circle), 'S'
    (needs smaller), 'P' (poor convergence -> smaller), 'D' (FFT mismatch reported degenerate)."""
    changes, prev, degenerate, nchg = 0, None, False, 0
    r, sr = r0, ratio
    converged = False
    i = 0
    for i in range(max_iter):
        if changes > 1 or degenerate:
            nchg += 1
            if nchg >= 1 + num_extrap:
                converged = True
                break
        smaller = False
        if not degenerate:
            ans = script[i]
            degenerate = (ans == 'D') and i > min_iter
            smaller = ans in ('S', 'P')
        if degenerate:
            smaller = (i % 2 == 0)
        if prev is not None and smaller != prev:
            changes += 1
        if changes > 0:
            sr = math.sqrt(sr)
        r = r / sr if smaller else r * sr
        prev = smaller
    return dict(iterations=i, failed=not converged, degenerate=degenerate, radius=r)


def run_scripted(script, max_iter, num_extrap, n=3, min_iter=None):
    from numdifftools import fornberg as ndf
    calls = dict(i=0)
    state = dict(last=None)

    def check_fft(m1, m2, check_degenerate=True):
        ans = script[min(calls['i'], len(script) - 1)]
        state['last'] = ans
        return (check_degenerate and ans == 'D'), ans == 'S'

    def poor(z, r, f, bn, mvec):
        ans = script[min(calls['i'], len(script) - 1)]
        calls['i'] += 1
        return ans == 'P'

    def poor_wrapper(z, r, f, bn, mvec):
        return poor(z, r, f, bn, mvec)

    old = ndf._check_fft, ndf._poor_convergence
    ndf._check_fft, ndf._poor_convergence = check_fft, poor_wrapper
    try:
        # the environment is consulted once per iteration while not degenerate; the iteration counter of the
        # script must advance exactly once per loop iteration -> advance it from the function evaluation:
        evals = dict(n=0)

        def f(z):
            z = np.asarray(z)
            if z.ndim > 0 and z.size > 3:
                evals['n'] += 1
                calls['i'] = evals['n'] - 1
            return np.exp(z)
        ndf._poor_convergence = lambda z, r, ff, bn, mvec: script[min(calls['i'], len(script) - 1)] == 'P'
        with warnings.catch_warnings():
            warnings.simplefilter('ignore')
            kw = {} if min_iter is None else dict(min_iter=min_iter)     # (given explicitly or left to its default)
            coefs, info = ndf.Taylor(f, n=n, r=0.0059, num_extrap=num_extrap, step_ratio=1.6, max_iter=max_iter,
                                     full_output=True, **kw)(0.1)
    finally:
        ndf._check_fft, ndf._poor_convergence = old
    return coefs, info, evals['n']


def scripts(max_iter, maxdev):
    for d in range(maxdev + 1):
        for pos in itertools.combinations(range(max_iter), d):
            for vals in itertools.product('SPD', repeat=d):
                s = ['L'] * max_iter
                for p, v in zip(pos, vals):
                    s[p] = v
                yield ''.join(s)


def work_protocol(chunk):
    acc = fw.Acc()
    for job in chunk:
        script, max_iter, nex = job[:3]
        min_iter = job[3] if len(job) > 3 else None
        case = ('protocol', script, max_iter, nex) + (() if min_iter is None else (min_iter,))
        jc = dict(kind='protocol', script=script, max_iter=max_iter, num_extrap=nex)
        if min_iter is not None:
            jc['min_iter'] = min_iter
        try:
            coefs, info, evals = run_scripted(script, max_iter, nex, min_iter=min_iter)
        except Exception as e:
            acc.case(case, nontrivial=True, cell='protocol/max_iter=%d' % max_iter, outcome='raised')
            acc.violation('C17:protocol:raised-%s' % type(e).__name__, jc, '%s: %s' % (type(e).__name__, e), rank=len(script))
            continue
        want = model_protocol(script, max_iter, max_iter // 2 if min_iter is None else min_iter, nex, 0.0059, 1.6)
        got = dict(iterations=int(info.iterations), failed=bool(info.failed), degenerate=bool(info.degenerate),
                   radius=float(info.final_radius))
        prob = None
        if evals > max_iter:
            prob = ('cap', 'function evaluated on %d circles, cap %d' % (evals, max_iter))
        elif not (got['radius'] > 0 and math.isfinite(got['radius'])):
            prob = ('radius', 'final radius %r' % got['radius'])
        elif np.asarray(coefs).size < 4:
            prob = ('count', '%d coefficients for n=3' % np.asarray(coefs).size)
        elif got['failed'] != want['failed']:
            prob = ('failed-flag', 'failed=%r, documented protocol gives %r (iterations %d vs %d)'
                    % (got['failed'], want['failed'], got['iterations'], want['iterations']))
        elif got['degenerate'] != want['degenerate']:
            prob = ('degenerate-flag', 'degenerate=%r, documented protocol gives %r' % (got['degenerate'], want['degenerate']))
        elif got['iterations'] != want['iterations']:
            prob = ('iterations', 'iterations=%d, documented protocol gives %d' % (got['iterations'], want['iterations']))
        elif abs(got['radius'] - want['radius']) > 1e-9 * want['radius']:
            prob = ('radius-path', 'final radius %r, documented protocol gives %r' % (got['radius'], want['radius']))
        ndev = sum(1 for c in script if c != 'L')
        acc.case(case, nontrivial=ndev > 0, cell=['protocol/max_iter=%d' % max_iter, 'protocol/nex=%d' % nex],
                 outcome=(got['failed'], got['degenerate'], got['iterations']))
        acc.count('protocol_traces')
        if prob:
            acc.violation('C17:protocol:%s' % prob[0], jc, 'script %s (max_iter=%d, num_extrap=%d): %s'
                          % (script, max_iter, nex, prob[1]), rank=ndev * 1000 + len(script))
    return acc


def run(ctx):
    q = ctx.quick
    cases = []
    for fname in FUNCS:
        for z0 in Z0S:
            for n in NS:
                if fname in NO_SCHWARZ and n >= 20:
                    # n >= 20 is the territory of the recorded finding F14 (cases recorded per function); the functions
                    # without Schwarz symmetry are explored where the unchanged tree is accurate, n <= 12
                    continue
                for r in RS:
                    for ratio in RATIOS:
                        for nex in NEXTRAP:
                            dev = (r != 0.0059) + (ratio != 1.6) + (nex != 3)
                            if q and dev > 1:
                                continue
                            cases.append((fname, z0, n, r, ratio, nex))
    acc = ctx.pmap(work, cases, chunk=10)
    if CALIBRATE:
        import json
        print(json.dumps({k: v for k, v in sorted(acc.extra.items())}, indent=0))
        return 0
    pjobs = []
    for max_iter in (6, 30):
        for nex in (1, 3, 5):
            maxdev = 3 if max_iter == 6 else (2 if q else 3)
            for s in scripts(max_iter, maxdev):
                pjobs.append((s, max_iter, nex))
    # the same scripts with min_iter given explicitly: as its documented default max_iter // 2, and as 2
    pjobs += [j + (j[1] // 2,) for j in pjobs[::7]] + [j + (2,) for j in pjobs[3::11]]
    pacc = ctx.pmap(work_protocol, pjobs, chunk=200)
    pacc.merge(ctx.pmap(work_reuse, [(f, n, si) for f in REUSE_FUNCS for n in (3, 6, 12) for si in range(len(REUSE_SEQS))], chunk=2))
    acc.merge(pacc)
    for c in cases[:2] + cases[len(cases) // 2:len(cases) // 2 + 2]:
        acc.sample(dict(f=c[0], z0=c[1], n=c[2], r=c[3], step_ratio=c[4], num_extrap=c[5]))
    acc.sample(dict(kind='protocol', script='LLSLLPLLLL...', meaning='environment answers per iteration: Larger/Smaller/Poor/Degenerate'))
    req = ['reuse/taylor-object'] + ['f/' + f for f in FUNCS if FUNCS[f][1] != 'poly'] + ['n=%d' % n for n in NS] + ['z0/real', 'z0/complex', 'protocol/max_iter=6',
                                                                  'protocol/max_iter=30']
    rule = ('%d accuracy cases: 13 functions with known series x 5 z0 x n in %r x r in %r x step_ratio x num_extrap%s; exact '
            'coefficients from 60-digit complex jets; when neither degenerate nor failed: |c_k - a_k| <= K1 x estimate_k + '
            'K2 x eps x max|f|/R^k on the final circle (max over 48 points, oracle side); derivative() == taylor() x k!; '
            'well-behaved default cases never degenerate/failed; + %d scripted environment traces (every answer sequence '
            'with <= 3 (2) deviations from "needs larger") replayed against the real Taylor.__call__ and a reference model '
            'of the documented protocol.  Non-trivial = status clean and final circle inside the domain / >= 1 deviation.'
            % (len(cases), NS, RS, ' (quick: <= 1 deviation from the default options)' if q else '', len(pjobs)))
    cov = dict(protocol_traces_validated_against_impl=int(acc.counters.get('protocol_traces', 0)))
    return fw.finish(ctx, acc, LEVEL, rule, exhaustive=True, required_cells=req, coverage_extra=cov,
                     assumptions=['K1, K2 frozen in envelopes.json (C17)', 'the environment seam is the two module-level '
                                  'functions _check_fft and _poor_convergence'])


def replay(case):
    if case.get('kind') == 'reuse':
        a = work_reuse([(case['f'], case['n'], case['seq'])])
        bad = [r['detail'] for k, (n, recs) in a.viol.items() for r in recs]
        return not bad, '%r -> %s' % (case, bad or 'ok')
    if case.get('kind') == 'protocol':
        a = work_protocol([(case['script'], case['max_iter'], case['num_extrap']) + ((case['min_iter'],) if 'min_iter' in case else ())])
    else:
        z0 = case['z0']
        if isinstance(z0, dict):
            z0 = complex(z0['re'], z0['im'])
        a = work([(case['f'], z0, case['n'], case['r'], case['step_ratio'], case['num_extrap'])])
    bad = [r['detail'] for k, (n, recs) in a.viol.items() for r in recs]
    return not bad, '%r -> %r' % (case, bad or 'ok')
