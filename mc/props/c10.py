"""C10 - step generators produce the documented sequences, and enough steps (DESIGN 5/C10).

E1: option vectors within a bounded number of deviations from the defaults x generator class x
method x n x order x x-pool, compared with the closed-form model (mc/oracle/stepmodel.py).
Coupling: default step count >= rule length for every (method, n, order); Derivative does not
raise.  Reuse (small E2): one generator instance driven through every sequence of <= 3 calls.
"""
import itertools
import math

import numpy as np

from mc import framework as fw
from mc.enum import deviations
from mc.oracle import stepmodel as sm

LEVEL = 'exploration'
EPS = np.finfo(float).eps
METHODS = ['central', 'central2', 'forward', 'backward', 'complex', 'multicomplex']

ARR = ('arr', (0.1, 0.2))
ARR0 = ('arr', (0.1, 0.0))
ARRN = ('arr', (0.1, -0.2))      # per-coordinate base steps of either sign
CPX = ('cpx', (-0.25, 0.25))     # a complex base step (documented for Limit: "step: float, complex, array-like")


def menus(cls):
    m = dict(
        # negative base steps are documented (Limit: the limit is then taken from below); the sequence is the same
        # closed form, and only steps that are exactly zero are dropped
        base_step=[0.25, 1e-3, ARR, 0.0, ARR0, -0.125, ARRN] + ([CPX] if cls == 'C' else []),
        step_ratio=[2, 1.6, 4, 3.5] if cls != 'C' else [2, 1.6, 3.5, 16],
        num_steps=[1, 3, 10] + ([None] if cls == 'Max' else []),
        step_nom=[1, 2.5],
        offset=[1, -2, 0.5],
        num_extrap=[1, 4] + ([0] if cls == 'Max' else []),
        use_exact_steps=[cls == 'Max'],
        check_num_steps=[False],
        scale=[1.2, 3] if cls != 'C' else [2.5, 3],
    )
    if cls == 'C':
        m['path'] = ['spiral']
        m['dtheta'] = [math.pi / 3, -math.pi / 5]      # both senses of rotation
    return m


XPOOL = {'0': 0.0, '1': 1.0, 'm': -3.7, 'big': 1e4, 'arr': (2.0, -50.0), 'arr0': (0.0, 3.0),
         # the same kind of point with integer type: the documented sequence depends on the value of x only
         'int': ('py-int', 3), 'iarr': ('int-arr', (2, -50)),
         # a complex point (documented for Limit: "z0 may be real or complex"): the nominal step grows with the MODULUS
         'cx': ('complex', (60.0, -80.0))}


def lib_x(xv):
    """the object handed to the library for a pool entry"""
    if isinstance(xv, tuple) and xv and xv[0] == 'py-int':
        return int(xv[1])
    if isinstance(xv, tuple) and xv and xv[0] == 'int-arr':
        return np.array(xv[1], dtype=np.int64)
    if isinstance(xv, tuple) and xv and xv[0] == 'complex':
        return np.asarray(complex(*xv[1]))
    return np.asarray(_val(('arr', xv)) if isinstance(xv, tuple) else xv, dtype=float)


def nord_pool(ctx):
    if ctx.quick:
        return [(n, o) for n in (1, 2, 3, 4, 5, 8) for o in (1, 2, 3, 4, 6, 8)]
    return [(n, o) for n in range(1, 11) for o in range(1, 11)]


def _val(v):
    if isinstance(v, (tuple, list)) and len(v) == 2 and v[0] == 'arr':
        return np.array(v[1], dtype=float)
    if isinstance(v, (tuple, list)) and len(v) == 2 and v[0] == 'cpx':
        return complex(v[1][0], v[1][1])
    return v


def lib_generator(cls, opts):
    from numdifftools.step_generators import MinStepGenerator, MaxStepGenerator
    from numdifftools.limits import CStepGenerator
    klass = {'Min': MinStepGenerator, 'Max': MaxStepGenerator, 'C': CStepGenerator}[cls]
    return klass(**{k: _val(v) for k, v in opts.items()})


def compare(lib_steps, model_steps, ratio, exps):
    """None if equal to 4 ulp (complex ratio: plus the phase error |e|*eps of a float complex power,
    e the exponent), else text."""
    if len(lib_steps) != len(model_steps):
        return 'count %d != documented %d' % (len(lib_steps), len(model_steps))
    prev = None
    for i, (a, b) in enumerate(zip(lib_steps, model_steps)):
        a = np.asarray(a)
        b = np.asarray(b)
        if a.shape != b.shape:
            return 'step %d has shape %r, documented %r' % (i, a.shape, b.shape)
        ulps = 4 + (4 * abs(exps[i]) if isinstance(ratio, complex) else 0)
        if not np.all(np.abs(a - b) <= ulps * EPS * np.abs(b)):
            return 'step %d = %r, documented %r' % (i, a.tolist(), b.tolist())
        if prev is not None and abs(ratio) > 1 and not np.all(np.abs(a) < prev):
            return 'steps not strictly decreasing at %d' % i
        prev = np.abs(a)
    return None


def one_case(cls, opts, method, n, order, xv):
    """Returns (status, text).  status in ok / skip / bad"""
    xl = lib_x(xv)
    x = np.asarray(xl, dtype=complex if np.iscomplexobj(xl) else float)          # the model works on the value
    mopts = {k: _val(v) for k, v in opts.items()}
    bs = mopts.get('base_step')
    if isinstance(bs, np.ndarray) and x.ndim == 1 and x.shape != bs.shape:
        return 'skip', ''
    try:
        model, ratio, exps = sm.steps(cls, x, method, n, order, **mopts)
    except (OverflowError, ZeroDivisionError):
        return 'skip', ''
    try:
        gen = lib_generator(cls, opts)
        lib = list(gen(xl, method, n, order))
    except Exception as e:
        return 'bad', 'raised %s: %s' % (type(e).__name__, e)
    txt = compare(lib, model, ratio, exps)
    if txt:
        return 'bad', txt
    if n % 2 == 1 and order % 2 == 0:
        # the same request with numpy integers for n and order: the same sequence, bit for bit
        try:
            lib2 = list(lib_generator(cls, opts)(xl, method, np.int64(n), np.int32(order)))
        except Exception as e:
            return 'bad', 'with numpy integers for n and order: raised %s: %s' % (type(e).__name__, e)
        if len(lib2) != len(lib) or any(np.asarray(a).tobytes() != np.asarray(b).tobytes() for a, b in zip(lib, lib2)):
            return 'bad', 'with numpy integers for n and order: %d steps %r, with Python integers %d steps' % (
                len(lib2), [np.asarray(a).tolist() for a in lib2[:2]], len(lib))
    return 'ok', len(lib)


def work(chunk, nords=None, xkeys=None):
    acc = fw.Acc()
    for cls, opts in chunk:
        for method in METHODS:
            for n, order in nords:
                for xk in xkeys:
                    xv = XPOOL[xk]
                    status, txt = one_case(cls, opts, method, n, order, xv)
                    case = (cls, sorted(opts.items(), key=str), method, n, order, xk)
                    if status == 'skip':
                        acc.count('skipped-incompatible-shapes')
                        continue
                    acc.case(case, nontrivial=True, cell='%s/%s' % (cls, method),
                             outcome=(status, txt if status == 'ok' else None))
                    if status == 'bad':
                        devs = '+'.join(sorted(opts)) or 'defaults'
                        acc.violation('C10:%s:%s' % (cls, devs),
                                      dict(kind='sequence', cls=cls, opts=opts, method=method, n=n,
                                           order=order, x=xk), txt, rank=len(opts) * 1000 + n * 10 + order)
    return acc


# ---------------------------------------------------------------------------------------------
# coupling with the finite-difference rules

def coupling_work(chunk):
    import warnings
    import numdifftools as nd
    from numdifftools.finite_difference import LogRule, FD_RULES
    from numdifftools.step_generators import MinStepGenerator, MaxStepGenerator
    acc = fw.Acc()
    for method, n, order in chunk:
        fw.fresh_library_state()
        case = ('coupling', method, n, order)
        rule = LogRule(n=n, method=method, order=order)
        mo = rule.method_order
        bad = None
        for gname, gen in (('Min', MinStepGenerator()), ('Max', MaxStepGenerator())):
            sg = gen.step_generator_function(0.5, method, n, mo)
            nsteps = len(list(sg()))
            need = rule.rule(sg.step_ratio).size
            if need != sm.rule_length(method, n, order):
                bad = 'rule length %d != documented %d' % (need, sm.rule_length(method, n, order))
            if nsteps < need:
                bad = 'default %sStepGenerator yields %d steps, rule needs %d' % (gname, nsteps, need)
        # the same coupling with the generator called directly for (method, n, order) as the statement words it
        # (Derivative itself passes the rounded method order, checked above)
        raw = None
        for gname, gen in (('Min', MinStepGenerator()), ('Max', MaxStepGenerator())):
            sg = gen.step_generator_function(0.5, method, n, order)
            nsteps = len(list(sg()))
            need = rule.rule(sg.step_ratio).size
            if nsteps < need:
                raw = ('default %sStepGenerator called with (%s, n=%d, order=%d) yields %d steps, the rule for the same '
                       '(method, n, order) needs %d' % (gname, method, n, order, nsteps, need))
        acc.case(case + ('raw',), nontrivial=True, cell='coupling-raw/%s' % method, outcome=raw)
        if raw:
            acc.violation('C10:coupling-raw-order:%s' % method, dict(kind='coupling', method=method, n=n, order=order),
                          raw, rank=n * 10 + order)
        for label, kw in (('default', {}), ('bareMin', {'step': MinStepGenerator()})):
            try:
                with warnings.catch_warnings():
                    warnings.simplefilter('ignore')
                    val = nd.Derivative(np.exp, method=method, n=n, order=order, **kw)(0.5)
                np.asarray(val)
            except Exception as e:
                bad = 'Derivative(exp, %s, n=%d, order=%d, %s) raised %s: %s' % (
                    method, n, order, label, type(e).__name__, e)
        acc.case(case, nontrivial=True, cell='coupling/%s' % method, outcome=bad)
        if bad:
            acc.violation('C10:coupling:%s' % method,
                          dict(kind='coupling', method=method, n=n, order=order), bad,
                          rank=n * 10 + order)
    return acc


# ---------------------------------------------------------------------------------------------
# reuse of one generator instance (E2, depth <= 3)

REUSE_CALLS = [(0.0, 'central', 1, 2), (1e4, 'central', 1, 2), (1.0, 'forward', 3, 4),
               (-3.7, 'complex', 2, 2), (1.0, 'complex', 1, 2), ((2.0, -50.0), 'backward', 2, 1),
               (1.0, 'multicomplex', 1, 2), ((3000.0, 0.5), 'backward', 2, 1), ((0.0, 1e4), 'central', 1, 2),
               (1.0, 'complex', 1, 4), (0.0, 'central', 1, 6)]      # same (method, n), another order
REUSE_GENS = [('Min', {}), ('Max', {}), ('Min', {'num_extrap': 4}), ('Max', {'num_steps': None}),
              ('Min', {'base_step': 0.25}), ('C', {}), ('C', {'path': 'spiral'}),
              # options given as ndarrays stay the caller's objects: the generator must not write into them
              ('Min', {'base_step': ARR}), ('Max', {'base_step': ARR})]


def reuse_work(chunk):
    acc = fw.Acc()
    for (cls, opts), seq in chunk:
        gen = lib_generator(cls, opts)
        bad = None
        trace = []
        # array points are handed over in ONE persistent ndarray that the caller updates in place between
        # calls (an optimisation loop does exactly that): the sequence must depend on its current contents
        buf = np.zeros(2)
        for idx in seq:
            xv, method, n, order = REUSE_CALLS[idx]
            if isinstance(xv, tuple):
                buf[:] = xv
                x = buf
            else:
                x = np.asarray(xv, dtype=float)
            got = [np.array(s) for s in gen(x, method, n, order)]
            x = np.array(x, copy=True)
            fresh = [np.array(s) for s in lib_generator(cls, opts)(x, method, n, order)]
            same = len(got) == len(fresh) and all(
                np.array_equal(a, b) for a, b in zip(got, fresh))
            trace.append(idx)
            if not same:
                bad = ('after calls %r the reused generator returned %r, a fresh one %r'
                       % (trace, [g.tolist() for g in got][:3], [g.tolist() for g in fresh][:3]))
                break
        if bad is None and len(seq) == 2:
            # the two sequences requested first, consumed afterwards (zip(g(x, n=1), g(x, n=2)), a, b = g(x1), g(x2)):
            # each must still be the documented sequence for ITS arguments
            gen2 = lib_generator(cls, opts)
            reqs = []
            for idx in seq:
                xv, method, n, order = REUSE_CALLS[idx]
                x = np.asarray(xv, dtype=float)
                reqs.append((gen2(x, method, n, order), x, method, n, order))
            for it, x, method, n, order in reqs:
                got = [np.array(s) for s in it]
                fresh = [np.array(s) for s in lib_generator(cls, opts)(x, method, n, order)]
                if not (len(got) == len(fresh) and all(np.array_equal(a, b) for a, b in zip(got, fresh))):
                    bad = ('requested for calls %r before any was consumed: the sequence for %r is %r, a fresh generator gives %r'
                           % (list(seq), (np.asarray(x).tolist(), method, n, order), [g.tolist() for g in got][:3],
                              [g.tolist() for g in fresh][:3]))
                    break
        if bad is None and len(seq) == 2:
            # a copy (copy.copy / copy.deepcopy) of a generator that has been used is a generator with the same options:
            # used with other arguments it yields the documented sequence for THOSE arguments
            import copy
            for how in (copy.copy, copy.deepcopy):
                gen3 = lib_generator(cls, opts)
                xv, method, n, order = REUSE_CALLS[seq[0]]
                list(gen3(np.asarray(xv, dtype=float), method, n, order))
                try:
                    cp = how(gen3)
                    xv, method, n, order = REUSE_CALLS[seq[1]]
                    x = np.asarray(xv, dtype=float)
                    got = [np.array(s) for s in cp(x, method, n, order)]
                except Exception as e:      # noqa: BLE001
                    bad = '%s of a generator used for call %r, then used for call %r: raised %s: %s' % (
                        how.__name__, seq[0], seq[1], type(e).__name__, e)
                    break
                fresh = [np.array(s) for s in lib_generator(cls, opts)(x, method, n, order)]
                if not (len(got) == len(fresh) and all(np.array_equal(a, b) for a, b in zip(got, fresh))):
                    bad = ('%s of a generator used for call %r, then used for call %r: %r, a fresh generator gives %r'
                           % (how.__name__, seq[0], seq[1], [g.tolist() for g in got][:3], [g.tolist() for g in fresh][:3]))
                    break
        acc.case(('reuse', cls, sorted(opts.items()), seq), nontrivial=len(seq) > 1,
                 cell='reuse/%s' % cls, outcome=bad)
        if bad:
            acc.violation('C10:reuse:%s' % cls, dict(kind='reuse', cls=cls, opts=opts, seq=list(seq)),
                          bad, rank=len(seq))
    return acc


def run(ctx):
    maxdev = 2 if ctx.quick else 3
    vectors = []
    for cls in ('Min', 'Max', 'C'):
        for opts in deviations(menus(cls), maxdev):
            if 'dtheta' in opts and 'path' not in opts and maxdev < 3:
                pass  # dtheta without spiral path must have no effect - still checked
            vectors.append((cls, opts))
    nords = nord_pool(ctx)
    xkeys = ['0', '1', 'm', 'big', 'arr', 'arr0', 'int', 'iarr', 'cx']
    if ctx.quick:
        xkeys = ctx.rotate(['0', '1', 'm', 'big'], 2) + ['arr'] + ctx.rotate(['int', 'iarr'], 1) + ['cx']
    acc = ctx.pmap(work, vectors, chunk=8 if ctx.quick else 16, nords=nords, xkeys=xkeys)

    cells = [(m, n, o) for m in METHODS for n in range(1, 11) for o in range(1, 11)
             if not (m == 'multicomplex' and n > 2) and m != 'central2']
    acc.merge(ctx.pmap(coupling_work, cells, chunk=10))

    seqs = [s for k in (1, 2, 3) for s in itertools.product(range(len(REUSE_CALLS)), repeat=k)]
    acc.merge(ctx.pmap(reuse_work, [(g, s) for g in REUSE_GENS for s in seqs], chunk=50))

    acc.sample(dict(cls='Min', opts={}, method='central', n=1, order=2, x=1.0,
                    documented=[s.tolist() for s in sm.steps('Min', 1.0, 'central', 1, 2)[0]]))
    acc.sample(dict(cls='Max', opts={'offset': 0.5, 'step_ratio': 3.5}, method='forward', n=3, order=4,
                    x=-3.7, documented=[float(s) for s in sm.steps('Max', -3.7, 'forward', 3, 4,
                                                                    offset=0.5, step_ratio=3.5)[0]]))
    acc.sample(dict(kind='reuse', gen=REUSE_GENS[0], seq=[0, 2, 1]))
    acc.sample(dict(kind='coupling', method='complex', n=7, order=9))
    req = ['%s/%s' % (c, m) for c in ('Min', 'Max', 'C') for m in METHODS]
    req += ['coupling/%s' % m for m in METHODS if m != 'central2'] + ['reuse/Min', 'reuse/Max', 'reuse/C']
    rule = ('all option vectors with <= %d deviations from the documented defaults (menus in '
            'mc/props/c10.py) x {Min, Max, C} generators x 6 methods x %d (n, order) pairs x x-pool; '
            'each generated sequence is compared to 4 ulp (count, order, values, zero dropping) with an '
            'independent closed-form model; + every (method, n<=10, order<=10) coupling cell; + every '
            'sequence of <= 3 calls on one reused generator instance. Non-trivial = compatible shapes '
            '(model defined); distinct by construction.' % (maxdev, len(nords)))
    return fw.finish(ctx, acc, LEVEL, rule, exhaustive=True, required_cells=req,
                     assumptions=['the model is typed in from the docstrings (default_scale formula '
                                  'restated independently)', '4 ulp allowance for the float power'])


def replay(case):
    kind = case.get('kind')
    if kind == 'sequence':
        opts = {k: (tuple(v) if isinstance(v, list) else v) for k, v in case['opts'].items()}
        for k, v in opts.items():
            if isinstance(v, tuple) and v and v[0] == 'arr':
                opts[k] = ('arr', tuple(v[1]))
        status, txt = one_case(case['cls'], opts, case['method'], case['n'], case['order'],
                               XPOOL[case['x']])
        return status != 'bad', 'case=%r -> %s %s' % (case, status, txt)
    if kind == 'coupling':
        acc = coupling_work([(case['method'], case['n'], case['order'])])
    else:
        opts = case['opts']
        acc = reuse_work([((case['cls'], opts), tuple(case['seq']))])
    bad = [r['detail'] for k, (n, recs) in acc.viol.items() for r in recs]
    return not bad, 'case=%r -> %s' % (case, bad or 'ok')
