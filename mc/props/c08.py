"""C08 - array inputs are handled elementwise and keep their shape (DESIGN 5/C08).

E1: shapes x exactly-rounded elementwise test functions x (method, n, order) x value pool.
For a constant array of value t the result at every position is the reference for "an element of
value t at that position".  Every array "all elements v, except position p := t" (all p, all
ordered pairs t != v of the pool) is then differentiated: seen from p this is the pattern "all other
positions := v", seen from any other position it is the pattern "one single other position := t";
plus rotated arrays that cycle through the whole pool.  Oracle: result.shape == x.shape; every
element is bit-identical (NaN == NaN) to its reference; the reference is bit-identical to the scalar
call for the real-step methods and within the sum of both error estimates for the complex-step
methods; *args / **kwds arrive unchanged (identity of sentinel objects) at every evaluation of f.
The oracle uses no library code: it compares results of the library with each other bit for bit.
"""
import warnings

import numpy as np

from mc import framework as fw
from mc.oracle import stepmodel as sm

LEVEL = 'exploration'
SHAPES = [(), (1,), (3,), (2, 3), (2, 2, 2), (40,), (5, 8), (1, 1, 4)]
BIG = 6                      # shapes with more elements get a rotated subset of positions in quick
POOL = [0.3, -1.7, 2.5, 11.0, 0.0, 1e-3, -0.02, 150.0, -5.0, 1e-9]
ORDERS = [1, 2, 3, 4, 6]
REAL_METHODS = ['central', 'forward', 'backward']
METHODS = REAL_METHODS + ['complex', 'multicomplex']
_SQRT_J = (1j + 1.0) / np.sqrt(2.0)


# ---------------------------------------------------------------------------------------------
# test functions: every operation is an exactly rounded elementwise IEEE operation on float arrays,
# so the value at one element cannot depend on the others; written so that they also accept complex
# and Bicomplex arguments (np.sqrt(z) dispatches to z.sqrt(); 1.0 / z works).

def f_cube(x):
    return x * x * x


def f_rat(x):
    return 1.0 / (1.0 + x * x)


def f_hyp(x):
    return np.sqrt(x * x + 1.0)


def f_poly(x):
    return (x - 0.5) * (x + 2.0) * x


def f_sqrtx(x):
    return np.sqrt(x)


def f_inv(x):
    return 1.0 / x


FUNCS = {'cube': f_cube, 'rat': f_rat, 'hyp': f_hyp, 'poly': f_poly, 'sqrtx': f_sqrtx, 'inv': f_inv}
FNAMES = ['cube', 'rat', 'hyp', 'poly', 'sqrtx', 'inv']


def configs():
    out = []
    for method in METHODS:
        for n in range(1, (2 if method == 'multicomplex' else 4) + 1):
            for order in ORDERS:
                out.append((method, n, order))
    return out


# ---------------------------------------------------------------------------------------------
# oracle-side classification of one element (only used to name keys / cells, never for a verdict):
# along the documented default step sequence, is the documented difference quotient of the test
# function non-finite for so many steps that no estimate can be formed ('all-nan'), for some step
# ('partial-nan') or for none ('finite')?

_CLASS = {}


def column_class(fname, u, method, n, order):
    key = (fname, u, method, n, order)
    if key in _CLASS:
        return _CLASS[key]
    f = FUNCS[fname]
    mo = sm.method_order(method, n, order)
    gen = 'Max' if method in REAL_METHODS else 'Min'
    steps = [float(np.asarray(s).ravel()[0]) for s in sm.steps(gen, u, method, n, mo)[0]]
    live = []
    with np.errstate(all='ignore'):
        x = np.float64(u)
        fx = f(x)
        for h in steps:
            if method == 'central':
                q = (f(x + h) + f(x - h)) / 2.0 - fx if n % 2 == 0 else (f(x + h) - f(x - h)) / 2.0
            elif method == 'forward':
                q = f(x + h) - fx
            elif method == 'backward':
                q = fx - f(x - h)
            elif method == 'complex' and not (n > 1 or order >= 4):
                q = f(x + 1j * h)
            elif method == 'complex':
                q = f(x + _SQRT_J * h) + f(x - _SQRT_J * h) + (fx if n % 4 == 0 else 0.0)
            else:
                q = f(x + 1j * h)
            live.append(bool(np.all(np.isfinite(q))))
    # one final estimate needs a run of consecutive finite quotients: the rule (documented length), the
    # Richardson extrapolation (documented: 2 terms, fewer for short sequences) and the 3-term Wynn step
    rule_len = sm.rule_length(method, n, order)
    rows = max(len(steps) - rule_len + 1, 1)
    rich = min(2, rows - 1)
    need = rule_len + rich + (2 if rows - rich > 2 else 0)
    run = best = 0
    for ok in live:
        run = run + 1 if ok else 0
        best = max(best, run)
    cls = 'all-nan' if best < need else ('finite' if all(live) else 'partial-nan')
    _CLASS[key] = cls
    return cls


_WORST = {'finite': 0, 'partial-nan': 1, 'all-nan': 2}


def worst_class(classes):
    classes = list(classes)
    if not classes:
        return 'finite'
    return max(classes, key=lambda c: _WORST[c])


# ---------------------------------------------------------------------------------------------
# library calls

class Failed(Exception):
    def __init__(self, exc):
        Exception.__init__(self, '%s: %s' % (type(exc).__name__, str(exc)[:160]))
        self.kind = type(exc).__name__


def call_lib(fname, method, n, order, x, extra_args=(), extra_kwds=None, fun=None):
    """-> (derivative ndarray, error_estimate ndarray); raises Failed for any library exception."""
    import numdifftools as nd
    from numdifftools.finite_difference import FD_RULES
    fw.fresh_library_state()
    f = fun if fun is not None else FUNCS[fname]
    try:
        with warnings.catch_warnings():
            warnings.simplefilter('ignore')
            with np.errstate(all='ignore'):
                der, info = nd.Derivative(f, method=method, n=n, order=order, full_output=True)(
                    x, *extra_args, **(extra_kwds or {}))
    except Exception as e:
        raise Failed(e)
    return np.asarray(der), np.asarray(info.error_estimate)


def python_valued(f):
    def g(x, *a, **k):
        v = f(x)
        if isinstance(v, (np.generic, np.ndarray)) and np.ndim(v) == 0:
            return v.item()
        return v
    return g


def object_valued(f):
    def g(x, *a, **k):
        v = f(x)
        if not isinstance(v, np.ndarray) or v.ndim == 0:
            return v
        out = np.empty(v.shape, dtype=object)
        flat = v.ravel()
        for i in range(flat.size):
            out.flat[i] = flat[i].item()
        return out
    return g


def bits_equal(a, b):
    """Elementwise: same bit pattern, or NaN at the same position.  a, b: arrays of equal shape."""
    a = np.ascontiguousarray(a)
    b = np.ascontiguousarray(b)
    if a.dtype != b.dtype:
        return np.zeros(a.shape, dtype=bool)
    if np.iscomplexobj(a):
        return bits_equal(a.real, b.real) & bits_equal(a.imag, b.imag)
    a = a.astype(np.float64, copy=False)
    b = b.astype(np.float64, copy=False)
    return (a.view(np.int64) == b.view(np.int64)) | (np.isnan(a) & np.isnan(b))


def _txt(v):
    return np.array2string(np.asarray(v), precision=17, threshold=8)


# ---------------------------------------------------------------------------------------------
# one unit = (function, method, n, order): all shapes, positions, value pairs

class Unit(object):
    def __init__(self, acc, fname, method, n, order):
        self.acc, self.fname, self.method, self.n, self.order = acc, fname, method, n, order
        self.cfg = dict(func=fname, method=method, n=n, order=order)
        self.real = method in REAL_METHODS
        self.cls = {u: column_class(fname, u, method, n, order) for u in POOL}
        self.scalar = {}

    def violation(self, kind, cond, case, detail, rank):
        c = dict(self.cfg)
        c.update(case)
        self.acc.violation('C08:Derivative:%s:%s' % (kind, cond), c,
                           'Derivative(%s, method=%r, n=%d, order=%d): %s' % (
                               self.fname, self.method, self.n, self.order, detail), rank=rank)

    def rank(self, shape, extra=0):
        size = int(np.prod(shape)) if shape else 1
        return (size * 1000 + METHODS.index(self.method) * 100 + self.n * 10 + self.order) * 10 + extra

    def lib(self, x, what, case):
        """library call with shape check; returns (der, est) or None after recording a violation."""
        self.acc.evaluations += 1
        try:
            fun = object_valued(FUNCS[self.fname]) if case.get('layout') == 'object-valued-f' else None
            der, est = call_lib(self.fname, self.method, self.n, self.order, x, fun=fun)
        except Failed as e:
            vals = set(np.asarray(x, dtype=float).ravel().tolist())
            cond = worst_class(self.cls[u] for u in vals) + '-elements'
            self.violation('raised-' + e.kind, cond, dict(case, kind=what),
                           'x=%s raised %s' % (_txt(x), e), self.rank(np.shape(x)))
            return None
        if der.shape != np.shape(x):
            self.violation('shape', '%dd-input' % np.ndim(x), dict(case, kind=what),
                           'x of shape %r gave a result of shape %r' % (np.shape(x), der.shape),
                           self.rank(np.shape(x)))
            return None
        return der, est

    # -- scalar calls (shape independent)
    def scalars(self):
        for u in POOL:
            self.scalar[u] = self.lib(float(u), 'scalar', dict(shape=[], t=u))
            # the same scalar point with a function that returns plain Python numbers (float / complex) for a scalar
            # argument, as a wrapper around math.* code does: the same bits
            ref = self.scalar[u]
            if ref is not None:
                self.acc.evaluations += 1
                case = dict(shape=[], t=u, kind='scalar', form='python-number-valued-f')
                try:
                    der, est = call_lib(self.fname, self.method, self.n, self.order, float(u), fun=python_valued(FUNCS[self.fname]))
                    same = der.shape == ref[0].shape and bool(np.all(bits_equal(der, ref[0])))
                    if not same:
                        self.violation('python-number-valued-f', 'differs', case,
                                       'x=%r: %s with f returning Python numbers, %s with numpy scalars' % (u, _txt(der), _txt(ref[0])), 0)
                except Failed as e:
                    self.violation('raised-' + e.kind, 'python-number-valued-f', case,
                                   'x=%r with a function returning a plain Python number raised %s' % (u, e), 0)

    def check_scalar(self, shape, u, ref):
        """reference (constant array of u) against the scalar call on u."""
        sc = self.scalar.get(u)
        if sc is None or ref is None:
            return
        der, est = ref
        sder, sest = sc
        same = bits_equal(der, np.broadcast_to(sder, der.shape).astype(der.dtype, copy=False))
        if self.real:
            bad = ~same
        else:
            with np.errstate(all='ignore'):
                close = np.abs(der - sder) <= np.abs(est) + np.abs(sest)
            bad = ~(same | close)
            self.acc.count('complex-step:array-vs-scalar:not-bit-identical', int(np.count_nonzero(~same)))
            with np.errstate(all='ignore'):
                ratio = np.atleast_1d(np.abs(der - sder) / (np.abs(est) + np.abs(sest)))
            ratio = ratio[np.atleast_1d(~same) & np.isfinite(ratio)]
            if ratio.size:
                self.acc.maxi('complex-step:array-vs-scalar:worst |difference| / (sum of both error estimates)',
                              float(ratio.max()))
        if bad.any():
            i = int(np.flatnonzero(bad.ravel())[0])
            self.violation('scalar-differs', ('real-step' if self.real else 'complex-step') + ':' +
                           self.cls[u] + '-element',
                           dict(kind='scalar-vs-array', shape=list(shape), t=u, i=i),
                           'constant array of %r, shape %r: element %d = %s, scalar call = %s%s' % (
                               u, shape, i, _txt(der.ravel()[i]), _txt(sder),
                               '' if self.real else ' (estimates %s + %s)' % (_txt(est.ravel()[i]), _txt(sest))),
                           self.rank(shape))

    # -- one array against the per-position references
    def check_array(self, shape, x, refs, what, case, viewpoints):
        """viewpoints: flat positions whose element is under test in this array."""
        res = self.lib(x, what, case)
        if res is None:
            return 'failed'
        der = res[0].ravel()
        flat = np.asarray(x, dtype=float).ravel()
        mism = np.zeros(flat.size, dtype=bool)
        for u in set(flat.tolist()):
            r = refs.get(u)
            if r is None:
                continue          # the constant array itself failed (already reported)
            idx = np.flatnonzero(flat == u)
            rd = r[0].ravel()
            if rd.dtype != der.dtype:
                mism[idx] = True
            else:
                mism[idx] = ~bits_equal(der[idx], rd[idx])
        bad = [i for i in viewpoints if mism[i]]
        if not bad:
            return 'ok'
        # one violation per array and key (simplest position first)
        seen = set()
        for i in bad:
            others = [self.cls[float(flat[j])] for j in range(flat.size) if j != i]
            neigh = worst_class(others)
            cond = {'all-nan': 'all-nan-column', 'partial-nan': 'partial-nan-column',
                    'finite': 'finite-neighbours'}[neigh]
            if cond in seen:
                continue
            seen.add(cond)
            ref_i = refs[float(flat[i])][0].ravel()[i]
            self.violation('neighbour-dependence', cond, dict(case, kind=what, shape=list(shape), i=i),
                           'x=%s (shape %r): element %d (value %r, its own steps: %s) = %s, but = %s when all '
                           'elements are %r; other elements: %s' % (
                               _txt(x), shape, i, float(flat[i]), self.cls[float(flat[i])], _txt(der[i]),
                               _txt(ref_i), float(flat[i]), neigh),
                           self.rank(shape, extra=0 if self.cls[float(flat[i])] == 'finite' else 5))
        return 'bad:' + ','.join(sorted(seen))

    def run_shape(self, shape, positions, targets, rotations):
        acc = self.acc
        size = int(np.prod(shape)) if shape else 1
        shape_cell = 'shape/%r' % (shape,)
        refs = {}
        for u in POOL:
            refs[u] = self.lib(np.full(shape, u, dtype=float), 'constant', dict(shape=list(shape), t=u))
            self.check_scalar(shape, u, refs[u])
        base_cells = [shape_cell, 'func/' + self.fname, 'config/%s/n=%d' % (self.method, self.n),
                      'order/%d' % self.order]
        if size == 1:
            # no other element: shape preservation and the scalar comparison are the whole check
            acc.case((self.fname, self.method, self.n, self.order, shape, 'single'), nontrivial=True,
                     cell=base_cells, outcome=('single', all(r is not None for r in refs.values())), n_eval=0)
            return
        for p in positions:
            for t in targets:
                outcomes = []
                neigh_cells = set()
                for v in POOL:
                    if v == t:
                        continue
                    x = np.full(shape, v, dtype=float)
                    x.ravel()[p] = t
                    out = self.check_array(shape, x, refs, 'replace', dict(p=p, t=t, v=v), range(size))
                    outcomes.append(out)
                    neigh_cells.add('neighbours/%s/%s' % (
                        'real-step' if self.real else self.method, worst_class([self.cls[v], self.cls[t]])))
                acc.case((self.fname, self.method, self.n, self.order, shape, p, t), nontrivial=True,
                         cell=base_cells + sorted(neigh_cells) + ['position/%s' % (
                             'first' if p == 0 else 'last' if p == size - 1 else 'inner')],
                         outcome=tuple(sorted(set(outcomes))), n_eval=0)
        for r in rotations:
            x = np.array([POOL[(i + r) % len(POOL)] for i in range(size)], dtype=float).reshape(shape)
            out = self.check_array(shape, x, refs, 'mixed', dict(r=r), range(size))
            acc.case((self.fname, self.method, self.n, self.order, shape, 'mixed', r), nontrivial=True,
                     cell=base_cells + ['pattern/mixed'], outcome=out, n_eval=0)
            # the same logical array handed over in another memory layout / container / dtype: "the element at
            # that position" is a statement about logical positions, so every element must still be bit-identical
            # to its per-position reference
            for lname, xl in layouts_of(x):
                if lname == 'object-valued-f' and not self.real:
                    continue      # Python complex arithmetic is not bit-identical to numpy's; real-step methods only
                out = self.check_array(shape, xl, refs, 'layout', dict(r=r, layout=lname), range(size))
                acc.case((self.fname, self.method, self.n, self.order, shape, 'layout', lname, r), nontrivial=True,
                         cell=base_cells + ['layout/' + lname], outcome=out, n_eval=0)

            xi = np.array([INT_VALUED[(i + r) % len(INT_VALUED)] for i in range(size)], dtype=np.int64).reshape(shape)
            out = self.check_array(shape, xi, refs, 'layout', dict(r=r, layout='integer-dtype'), range(size))
            acc.case((self.fname, self.method, self.n, self.order, shape, 'layout', 'integer-dtype', r), nontrivial=True,
                     cell=base_cells + ['layout/integer-dtype'], outcome=out, n_eval=0)

    # -- *args / **kwds
    def run_args(self, shape):
        """forwarding: whatever list of extra positional / keyword arguments the call receives, f receives exactly
        those objects (identity) on every evaluation.  Forms of the list: two objects; ONE argument that is itself a
        tuple / a list / a dict / None; a (tuple, dict) pair (the scipy `args=` spelling is NOT this library's: the
        call signature is (x, *args, **kwds)); keywords only.  All forms run on the first two shapes, form 0 on all."""
        for form in (ARG_FORMS if shape in SHAPES[:2] else ARG_FORMS[:1]):
            self.run_args_form(shape, form)

    def run_args_form(self, shape, form):
        s1, s2, s3 = object(), [1.5, 'payload'], {'k': object()}
        sent_args, sent_kw = arg_form(form, s1, s2, s3)
        seen = {'n': 0, 'bad_pos': 0, 'bad_kw': 0}
        f = FUNCS[self.fname]

        def g(x, *args, **kwds):
            seen['n'] += 1
            if not (len(args) == len(sent_args) and all(a is b for a, b in zip(args, sent_args))):
                seen['bad_pos'] += 1
            if not (set(kwds) == set(sent_kw) and all(kwds[k] is sent_kw[k] for k in sent_kw)):
                seen['bad_kw'] += 1
            return f(x)
        x = np.full(shape, 0.3, dtype=float)
        self.acc.evaluations += 1
        case = dict(kind='args', shape=list(shape))
        if form != ARG_FORMS[0]:
            case['form'] = form
        try:
            der, _ = call_lib(self.fname, self.method, self.n, self.order, x, sent_args, dict(sent_kw), fun=g)
        except Failed as e:
            self.violation('raised-' + e.kind, 'extra-arguments' + ('' if form == ARG_FORMS[0] else ':' + form), case,
                           'call with extra arguments of the form %s raised %s' % (form, e), self.rank(shape))
            return
        ok = seen['n'] > 0 and not seen['bad_pos'] and not seen['bad_kw'] and s2 == [1.5, 'payload']
        self.acc.case((self.fname, self.method, self.n, self.order, shape, 'args', form), nontrivial=True,
                      cell=['args/%s' % self.method, 'shape/%r' % (shape,), 'args-form/' + form], outcome=ok, n_eval=0)
        self.acc.maxi('max_evaluations_of_f_with_sentinels_in_one_call', seen['n'])
        if not ok:
            what = ('never-evaluated' if seen['n'] == 0 else
                    'positional' if seen['bad_pos'] and not seen['bad_kw'] else
                    'keyword' if seen['bad_kw'] and not seen['bad_pos'] else
                    'positional+keyword' if seen['bad_pos'] else 'argument-mutated')
            self.violation('args-not-forwarded', what + ('' if form == ARG_FORMS[0] else ':' + form), case,
                           'extra arguments of the form %s: %d evaluations of f: %d without the positional objects sent, '
                           '%d without the keyword objects sent' % (form, seen['n'], seen['bad_pos'], seen['bad_kw']),
                           self.rank(shape))


ARG_FORMS = ['two-objects+kwds', 'one-tuple', 'tuple+dict', 'one-list', 'one-dict', 'one-None', 'kwds-only',
             'one-tuple+kwds']


def arg_form(form, s1, s2, s3):
    """(positional arguments, keyword arguments) sent with the call"""
    kw = dict(tag=s3, opt=s1)
    return {'two-objects+kwds': ((s1, s2), kw),
            'one-tuple': (((s1, s2),), {}),
            'tuple+dict': (((s1, s2), {'tag': s3}), {}),
            'one-list': (([s1, s2],), {}),
            'one-dict': (({'tag': s3},), {}),
            'one-None': ((None,), {}),
            'kwds-only': ((), kw),
            'one-tuple+kwds': (((s1,),), kw)}[form]


def zero_order(acc, fname, method, order):
    """n = 0 (the function value itself comes back through the same machinery): shape kept, every element equal to
    f at that element, extra arguments forwarded on every evaluation."""
    s1, s2, s3 = object(), [1.5, 'payload'], {'k': object()}
    f = FUNCS[fname]
    for shape in SHAPES:
        size = int(np.prod(shape)) if shape else 1
        seen = {'n': 0, 'bad_pos': 0, 'bad_kw': 0}

        def g(x, *args, **kwds):
            seen['n'] += 1
            if not (len(args) == 2 and args[0] is s1 and args[1] is s2):
                seen['bad_pos'] += 1
            if not (set(kwds) == {'tag', 'opt'} and kwds['tag'] is s3 and kwds['opt'] is s1):
                seen['bad_kw'] += 1
            return f(x)
        x = np.array([POOL[i % len(POOL)] for i in range(size)], dtype=float).reshape(shape)
        case = dict(func=fname, method=method, n=0, order=order, kind='zero-order', shape=list(shape))
        head = 'Derivative(%s, method=%r, n=0, order=%d)' % (fname, method, order)
        acc.evaluations += 1
        try:
            der, _ = call_lib(fname, method, 0, order, x, (s1, s2), dict(tag=s3, opt=s1), fun=g)
        except Failed as e:
            acc.case((fname, method, 0, order, shape, 'zero-order'), nontrivial=True, cell=['zero-order/%s' % method], outcome='raised')
            acc.violation('C08:Derivative:raised-%s:zero-order' % e.kind, case, '%s: call with *args/**kwds raised %s' % (head, e), size)
            continue
        with np.errstate(all='ignore'):
            want = np.asarray(f(x))
        prob = None
        if der.shape != np.shape(x):
            prob = ('shape', 'x of shape %r gave a result of shape %r' % (np.shape(x), der.shape))
        elif seen['n'] == 0 or seen['bad_pos'] or seen['bad_kw']:
            prob = ('args-not-forwarded', '%d evaluations of f: %d without the positional sentinels, %d without the '
                    'keyword sentinels' % (seen['n'], seen['bad_pos'], seen['bad_kw']))
        elif not np.all(bits_equal(np.asarray(der, dtype=want.dtype), want)):
            prob = ('zero-order-value', 'n=0 result %s differs from f(x) = %s' % (_txt(der), _txt(want)))
        acc.case((fname, method, 0, order, shape, 'zero-order'), nontrivial=True, cell=['zero-order/%s' % method],
                 outcome=prob is None, n_eval=0)
        if prob:
            acc.violation('C08:Derivative:%s:zero-order' % prob[0], case, '%s: %s' % (head, prob[1]), size)


def reentrant_args(acc, fname, method, n, order):
    """The user function re-enters the SAME Derivative object with other extra arguments (a recursive definition such as
    g(x, k) = ... d(x, k - 1) ...): every evaluation made by the outer call must still receive the outer call's
    arguments, and the outer result must be bit-identical to the result of the call without the inner one."""
    import numdifftools as nd
    f = FUNCS[fname]
    tags = [object(), object()]
    st = {'depth': 0, 'n': 0, 'bad': 0, 'inner_done': False, 'nest': True}
    x = np.array([0.3, 2.5, 11.0])

    def g(t, k, tag=None):
        want = 1 if st['depth'] == 0 else 0
        if st['depth'] == 0:
            st['n'] += 1
        if k != want or tag is not tags[want]:
            st['bad'] += 1
        if st['nest'] and st['depth'] == 0 and st['n'] == 2 and not st['inner_done']:
            st['inner_done'] = True
            st['depth'] = 1
            try:
                d(x, 0, tag=tags[0])
            finally:
                st['depth'] = 0
        return f(t)
    case = dict(func=fname, method=method, n=n, order=order, kind='reentrant')
    head = 'Derivative(g, method=%r, n=%d, order=%d), g calling the same object with other arguments' % (method, n, order)
    fw.fresh_library_state()
    acc.evaluations += 1
    try:
        with warnings.catch_warnings():
            warnings.simplefilter('ignore')
            with np.errstate(all='ignore'):
                d = nd.Derivative(g, method=method, n=n, order=order)
                nested = np.asarray(d(x, 1, tag=tags[1]))
                bad_nested, n_nested = st['bad'], st['n']
                st.update(depth=0, n=0, bad=0, inner_done=False, nest=False)
                fw.fresh_library_state()
                d = nd.Derivative(g, method=method, n=n, order=order)
                plain = np.asarray(d(x, 1, tag=tags[1]))
    except Exception as e:      # noqa: BLE001
        acc.case((fname, method, n, order, 'reentrant'), nontrivial=True, cell=['reentrant/%s' % method], outcome='raised')
        acc.violation('C08:Derivative:raised-%s:reentrant' % type(e).__name__, case, '%s raised %s: %s' % (head, type(e).__name__, e), 1)
        return
    prob = None
    if bad_nested:
        prob = ('args-not-forwarded', '%d of the %d evaluations of the outer call did not receive the outer call\'s arguments'
                % (bad_nested, n_nested))
    elif nested.shape != plain.shape or not np.all(bits_equal(nested, plain)):
        prob = ('reentrant-value', 'result with the inner call %s, without %s' % (_txt(nested), _txt(plain)))
    acc.case((fname, method, n, order, 'reentrant'), nontrivial=True, cell=['reentrant/%s' % method], outcome=prob is None, n_eval=0)
    if prob:
        acc.violation('C08:Derivative:%s:reentrant' % prob[0], case, '%s: %s' % (head, prob[1]), 1)


def positions_for(shape, quick, seed):
    size = int(np.prod(shape)) if shape else 1
    pos = list(range(size))
    if not quick or size <= BIG:
        return pos
    s = seed % size
    rot = pos[s:] + pos[:s]
    step = max(size // 3, 1)
    return sorted(set([rot[0], rot[step], rot[2 * step]]))


INT_VALUED = [11.0, 0.0, 150.0, -5.0]


def layouts_of(x):
    """[(name, array-like)]: the same logical array in other layouts (never C-contiguous float64 itself)."""
    out = []
    if x.ndim >= 2:
        out.append(('fortran', np.asfortranarray(x)))
        out.append(('transposed-view', np.ascontiguousarray(x.T).T))
    big = np.zeros(x.shape[:-1] + (2 * x.shape[-1],), dtype=float)
    big[..., ::2] = x
    out.append(('strided-view', big[..., ::2]))
    out.append(('reversed-view', np.ascontiguousarray(x[::-1])[::-1]))
    out.append(('nested-list', x.tolist()))
    out.append(('masked-array-nothing-masked', np.ma.array(x)))      # an ndarray subclass with ordinary values
    # the same array, but the FUNCTION returns its (same) values in an object-dtype array of Python numbers, as a
    # function built with np.frompyfunc or np.vectorize(..., otypes=[object]) does
    out.append(('object-valued-f', x))
    return out


ANCHORS = [2.5, 11.0, 0.3, 150.0]


def quick_targets(seed):
    t = POOL[seed % len(POOL)]
    a = [v for v in ANCHORS[seed % len(ANCHORS):] + ANCHORS[:seed % len(ANCHORS)] if v != t][0]
    return [t, a]


def work(chunk, quick=True, seed=0, targets=None, rotations=None):
    acc = fw.Acc()
    for fname, method, n, order in chunk:
        if n == 1:
            zero_order(acc, fname, method, order)
        if fname == FNAMES[0]:
            reentrant_args(acc, fname, method, n, order)
        u = Unit(acc, fname, method, n, order)
        u.scalars()
        for shape in SHAPES:
            u.run_shape(shape, positions_for(shape, quick, seed), targets, rotations)
            u.run_args(shape)
        for val, c in u.cls.items():
            acc.cell('class/%s/%s' % ('real-step' if u.real else method, c))
    return acc


def run(ctx):
    units = [(f, m, n, o) for f in FNAMES for (m, n, o) in configs()]
    # quick: one seed-rotated pool value plus one seed-rotated anchor (a value that leaves at least one real-step
    # column only partly non-finite), so that every neighbour class is met for every seed
    targets = POOL if not ctx.quick else quick_targets(ctx.seed)
    rotations = ctx.rotate(list(range(len(POOL))), 2)
    acc = ctx.pmap(work, units, chunk=1, quick=ctx.quick, seed=ctx.seed, targets=targets,
                   rotations=rotations)
    acc.sample(dict(pattern='replace', func='sqrtx', method='central', n=1, order=2, shape=[3], p=0,
                    t=0.3, v=-5.0, x=[0.3, -5.0, -5.0],
                    meaning='element 0 must equal element 0 of Derivative(...)([0.3, 0.3, 0.3]); elements 1, 2 '
                            'must equal those of Derivative(...)([-5, -5, -5]) bit for bit'))
    acc.sample(dict(pattern='mixed', func='inv', method='complex', n=3, order=4, shape=[2, 3], r=4,
                    x=[[POOL[(i + 4) % 10] for i in range(3)], [POOL[(i + 7) % 10] for i in range(3)]]))
    acc.sample(dict(pattern='scalar-vs-array', func='hyp', method='forward', n=2, order=3, shape=[5, 8], t=150.0))
    acc.sample(dict(pattern='args', func='cube', method='multicomplex', n=2, order=2, shape=[2, 2, 2],
                    args='(object(), list)', kwds='tag=dict, opt=object()'))
    acc.sample(dict(classes_of_pool_for='sqrtx/central/n=1/order=2',
                    classes={repr(u): column_class('sqrtx', u, 'central', 1, 2) for u in POOL}))
    req = ['shape/%r' % (s,) for s in SHAPES] + ['func/' + f for f in FNAMES]
    req += ['config/%s/n=%d' % (m, n) for (m, n, o) in configs()] + ['order/%d' % o for o in ORDERS]
    req += ['args/%s' % m for m in METHODS] + ['pattern/mixed', 'position/first', 'position/last',
                                               'position/inner']
    req += ['neighbours/real-step/%s' % c for c in ('finite', 'partial-nan', 'all-nan')]
    req += ['zero-order/%s' % m for m in METHODS] + ['reentrant/%s' % m for m in METHODS]
    req += ['layout/' + l for l in ('fortran', 'transposed-view', 'strided-view', 'reversed-view', 'nested-list', 'integer-dtype')]
    req += ['neighbours/%s/finite' % m for m in ('complex', 'multicomplex')]
    rule = ('%d shapes x 6 exactly-rounded elementwise functions x %d (method, n, order) configurations (5 methods, '
            'n <= 4, multicomplex n <= 2, order in {1,2,3,4,6}); value pool of 10 (incl. 0, -5, 1e-9, 150).  For '
            'every shape: 10 constant arrays (per-position references) and the 10 scalar calls; every array "all '
            'v, position p := t" for p in %s, t in %s, all v != t of the pool (seen from p: all others := v; seen '
            'from every other position: one single other position := t) and %d pool-cycling arrays; every '
            'element of every result is compared bit for bit (NaN == NaN) with its reference; shape equality on '
            'every call; reference == scalar call bit for bit (central, forward, backward) or within the sum of '
            'both error estimates (complex, multicomplex); identity-checked sentinel *args/**kwds at every '
            'evaluation of f for every shape and configuration.  A case = one target element (function, '
            'configuration, shape, position, value); evaluations = library calls.  Non-trivial = the array has '
            'another element (size >= 2) or, for size 1, the shape/scalar comparison; column classes (all-nan / '
            'partial-nan / finite) come from the documented step sequence and the test function, not from the '
            'library.' % (len(SHAPES), len(configs()),
                          'all positions' if not ctx.quick else 'all positions (3 seed-rotated ones for sizes > 6)',
                          'the whole pool' if not ctx.quick else '2 pool values (one seed-rotated, one seed-rotated anchor)', len(rotations)))
    return fw.finish(ctx, acc, LEVEL, rule, exhaustive=True, required_cells=req,
                     assumptions=['numpy float +, -, *, /, sqrt are correctly rounded elementwise, so the test '
                                  'functions are elementwise bit for bit',
                                  'complex-step comparisons with the scalar call use the reported error estimates '
                                  '(full_output=True); all other comparisons are exact',
                                  'the default step generators are used (a user generator is C10/C01 territory)'])


def replay(case):
    acc = fw.Acc()
    if case['kind'] == 'reentrant':
        reentrant_args(acc, case['func'], case['method'], case['n'], case['order'])
        bad = ['%s :: %s' % (k, r['detail']) for k, (n, recs) in sorted(acc.viol.items()) for r in recs[:1]]
        return not bad, 'case=%r -> %s' % (case, bad or 'ok')
    if case['kind'] == 'zero-order':
        zero_order(acc, case['func'], case['method'], case['order'])
        bad = ['%s :: %s' % (k, r['detail']) for k, (n, recs) in sorted(acc.viol.items()) for r in recs[:1]]
        return not bad, 'case=%r -> %s' % (case, bad or 'ok')
    u = Unit(acc, case['func'], case['method'], case['n'], case['order'])
    shape = tuple(case.get('shape') or ())
    kind = case['kind']

    def num(v):
        return float(v)
    if kind == 'args':
        u.run_args_form(shape, case.get('form', ARG_FORMS[0]))
    else:
        u.scalars()
        if kind in ('scalar', 'constant', 'scalar-vs-array'):
            t = num(case['t'])
            ref = u.lib(np.full(shape, t, dtype=float), 'constant', dict(shape=list(shape), t=t))
            u.check_scalar(shape, t, ref)
        else:
            if kind == 'replace':
                x = np.full(shape, num(case['v']), dtype=float)
                x.ravel()[case['p']] = num(case['t'])
                sub = dict(p=case['p'], t=num(case['t']), v=num(case['v']))
            else:
                size = int(np.prod(shape))
                x = np.array([POOL[(i + case['r']) % len(POOL)] for i in range(size)], dtype=float).reshape(shape)
                sub = dict(r=case['r'])
                if kind == 'layout':
                    sub['layout'] = case['layout']
                    if case['layout'] == 'integer-dtype':
                        x = np.array([INT_VALUED[(i + case['r']) % len(INT_VALUED)] for i in range(size)],
                                     dtype=np.int64).reshape(shape)
                    else:
                        x = dict(layouts_of(x))[case['layout']]
            refs = {}
            for val in sorted(set(np.asarray(x, dtype=float).ravel().tolist())):
                refs[val] = u.lib(np.full(shape, val, dtype=float), 'constant', dict(shape=list(shape), t=val))
            u.check_array(shape, x, refs, kind, sub, range(int(np.prod(shape)) if shape else 1))
    bad = ['%s :: %s' % (k, r['detail']) for k, (n, recs) in sorted(acc.viol.items()) for r in recs[:1]]
    return not bad, 'case=%r -> %s' % (case, bad or 'ok: shape kept, all elements bit-identical to their references')
