"""C02 - the reported error estimate is honest; the full_output record is self-consistent
(DESIGN 5/C02).  Shares the execution space of C01 (same programs, points, configurations,
generators) and adds the Gradient / Jacobian / Hessdiag / Hessian cases of C03/C04.
"""
import math
import os

import numpy as np

from mc import framework as fw
from mc import programs as P
from mc.oracle import jets
from mc.props import c01, c01_common as cm

LEVEL = 'exploration'
EPS = np.finfo(float).eps
CALIBRATE = bool(os.environ.get('VERIF_CALIBRATE'))


def bits_equal(a, b):
    a, b = np.asarray(a), np.asarray(b)
    if a.shape != b.shape:
        return False
    return bool(np.all((a == b) | ((a != a) & (b != b))))


def record_problems(res, x, direct, gen, t_by_elem, method, n):
    """Self-consistency of (value, info) for one call.  Returns list of (kind, text)."""
    out = []
    val, info = np.asarray(res['val']), res['info']
    est = np.asarray(info.error_estimate)
    fs = np.asarray(info.final_step)
    if not bits_equal(info.f_value, direct):
        out.append(('f_value', 'info.f_value %r != f(x) %r' % (info.f_value, direct)))
    if est.size != val.size or fs.size != val.size:
        out.append(('record-size', 'result has %d entries, error_estimate %d, final_step %d'
                    % (val.size, est.size, fs.size)))
    else:
        try:
            np.broadcast_shapes(est.shape, val.shape)
            np.broadcast_shapes(fs.shape, val.shape)
        except ValueError:
            if not (est.size == val.size and np.squeeze(est).shape == np.squeeze(val).shape):
                out.append(('record-shape', 'error_estimate %r / final_step %r do not broadcast against result %r'
                            % (est.shape, fs.shape, val.shape)))
        fin = np.isfinite(val).ravel()
        e = est.ravel()
        if np.any(fin & ~fw.nonneg_real(e)):
            out.append(('estimate-sign', 'error_estimate %r for finite result %r' % (est.tolist(), val.tolist())))
        if n > 0 and res.get('lib_steps'):
            steps = [np.abs(np.asarray(s, dtype=float)) * np.ones(np.shape(x)) for s in res['lib_steps']]
            lo = np.min(steps, axis=0).ravel()
            hi = np.max(steps, axis=0).ravel()
            f = np.abs(fs.ravel().astype(float))
            if np.any((f < lo * (1 - 8 * EPS)) | (f > hi * (1 + 8 * EPS))):
                out.append(('final_step', 'final_step %r outside the generated steps [%r, %r]'
                            % (f.tolist(), lo.tolist(), hi.tolist())))
    return out


def work(chunk, points=None, tier='quick', quick_slice=0):
    acc = fw.Acc()
    for spec in chunk:
        show = c01.spec_show(spec)
        fun = c01.spec_fun(spec)
        seen_calls = set()

        def visit(cfg, gen, comb, t, res, form, spec=spec, show=show, fun=fun):
            method, n, order = cfg
            case = (spec, comb.x, cfg, gen, form)
            jc = dict(spec=spec, x=comb.x, cfg=list(cfg), gen=list(gen), form=form, f=show)
            rank = jets.depth(spec[1] if spec[0] == 'real' else spec[2]) * 10000 + n * 100 + order
            cell = '%s/n=%d' % (method, n)
            if res['status'] != 'ok':
                acc.case(case, nontrivial=False, outcome=res['status'])
                if gen[0] == 'rows' and gen[1]['rows'] <= 0 and res['status'] == 'raised-ValueError':
                    return
                # no record at all for a configuration of the C01 domain (C01 reports the same call under its key)
                acc.violation('C02:Derivative:no-record:%s:%s' % (res['status'], method), jc,
                              'full_output call raised %s' % res.get('exc'), rank)
                return
            # (b) record self-consistency, once per call
            if not res.get('_record_checked'):
                res['_record_checked'] = True
                xx = comb.x if form == 'scalar' else res.get('x_arr')
                if form == 'scalar':
                    with np.errstate(all='ignore'):
                        direct = fun(np.asarray(comb.x))
                    probs = record_problems(res, comb.x, direct, gen, None, method, n)
                else:
                    probs = []   # array form: checked through its scalar twin + sizes below
                    val = np.asarray(res['val'])
                    est = np.asarray(res['info'].error_estimate)
                    fs = np.asarray(res['info'].final_step)
                    if est.size != val.size or fs.size != val.size:
                        probs.append(('record-size', 'array call: result %r, error_estimate %r, final_step %r'
                                      % (val.shape, est.shape, fs.shape)))
                for kind, text in probs[:1]:
                    acc.violation('C02:Derivative:%s:%s' % (kind, method), jc, text, rank)
            if n == 0 or not t['classA']:
                acc.case(case, nontrivial=False, outcome='record-only')
                return
            v = c01._elem(res['val'], form)
            est = np.asarray(res['info'].error_estimate).ravel()
            e = float(est[0] if form == 'scalar' or est.size == 1 else est[form[1]])
            err = abs(v - t['exact'])
            unit = t['S'] * t['fac']
            if CALIBRATE:
                F = max(cm.env('E' if gen[0] == 'default' else 'EU', method, n) / 100.0, 1e3 * EPS)
                excess = err - F * unit
                if excess > 0:
                    k = excess / e if e > 0 else float('inf')
                    acc.maxi('K/%s/%d/%s' % (method, n, gen[0] + ('-steep' if gen[1].get('step_ratio') == 4.0 else '') + ('-25' if gen[1].get('num_steps') == 25 else '')), (min(k, 1e300), '%s @%r order=%d gen=%r err=%.3g est=%.3g S=%.3g'
                                                       % (show, comb.x, order, gen, err, e, unit)))
                acc.case(case, nontrivial=True, cell=cell)
                return
            K1 = cm.env('K1', method, n)
            F = cm.env('F' if gen[0] == 'default' else 'FU', method, n)
            bound = K1 * e + F * unit
            # non-trivial: the estimate (not the floor) is what has to cover the error scale
            nontriv = F * unit < abs(t['exact']) / 2
            acc.case(case, nontrivial=nontriv, cell=cell,
                     outcome=(method, n, err <= bound, round(math.log10(max(min(max(e, 1e-300) / max(unit, 1e-300), 1e300), 1e-300)))))
            if math.isfinite(err) and e > 0:
                acc.maxi('worst_excess_over_estimate/%s/%d' % (method, n), max(err - F * unit, 0.0) / e)
            if not (err <= bound):
                gk = '' if gen[0] == 'default' else ':gen=' + gen[0] + (
                    '-long' if (gen[1].get('num_steps') or 0) >= 20 else '') + (str(gen[1]['rows']) if gen[0] == 'rows' else '')
                acc.violation('C02:Derivative:dishonest-estimate:%s:n=%d%s' % (method, n, gk), jc,
                              'Derivative(%s, n=%d, %s, order=%d, gen=%r)(%r): error %.3g > K1=%g x estimate %.3g + '
                              'F=%g x S_n %.3g' % (show, n, method, order, gen, comb.x, err, K1, e, F, unit), rank)

        c01.run_spec(spec, points, tier, visit, quick_slice, honesty=True, want_steps=True)
    return acc


# ---------------------------------------------------------------------------------------------
# full_output given as another true value (1, numpy.True_): the record must be the same record

def _mexp(x):
    return np.exp(x[0]) + x[0] * x[1] * x[1] + np.sin(x[1])


def _vexp(x):
    return np.array([np.exp(x[0]) * x[1], x[0] + np.sin(x[1]) * x[0]])


def flag_cases():
    out = []
    for method in cm.METHODS:
        for n in (1, 2, 3):
            if method == 'multicomplex' and n > 2:
                continue
            for xk in ('scalar', 'array'):
                out.append(('Derivative', method, n, 2, xk))
    for cls in ('Gradient', 'Jacobian', 'Hessdiag', 'Hessian'):
        for method in ('central', 'forward', 'complex'):
            out.append((cls, method, 1 if cls in ('Gradient', 'Jacobian') else 2, 2, 'array'))
    return out


def work_flags(chunk):
    import warnings
    import numdifftools as nd
    acc = fw.Acc()
    for cls, method, n, order, xk in chunk:
        f = np.exp if cls == 'Derivative' else (_vexp if cls == 'Jacobian' else _mexp)
        x = 0.75 if xk == 'scalar' else np.array([0.75, 1.25])
        kw = dict(method=method)
        if cls == 'Derivative':
            kw['n'] = n
        if cls != 'Hessian':
            kw['order'] = order
        recs = {}
        for name, flag in (('True', True), ('1', 1), ('numpy.True_', np.True_), ('assigned-after-construction', None),
                           ('assigned-after-a-plain-call', None)):
            fw.fresh_library_state()
            try:
                with warnings.catch_warnings():
                    warnings.simplefilter('ignore')
                    with np.errstate(all='ignore'):
                        if flag is None:
                            # `full_output` is a plain public attribute: built with the default (False), switched on later
                            obj = getattr(nd, cls)(f, **kw)
                            if name == 'assigned-after-a-plain-call':
                                obj(x)
                            obj.full_output = True
                            val, info = obj(x)
                        else:
                            val, info = getattr(nd, cls)(f, full_output=flag, **kw)(x)
                recs[name] = fw.obs((val, info.f_value, info.error_estimate, info.final_step, info.index))
                fval = np.asarray(info.f_value)
            except Exception as e:      # noqa: BLE001
                recs[name] = ('raised', type(e).__name__, str(e)[:100])
                fval = None
            case = ('flag', cls, method, n, order, xk, name)
            jc = dict(kind='flag', cls=cls, method=method, n=n, order=order, x=xk, full_output=name)
            acc.case(case, nontrivial=True, cell='flag/%s' % cls, outcome=recs[name] == recs['True'])
            with np.errstate(all='ignore'):
                direct = np.asarray(f(np.asarray(x)))
            if fval is not None and not (fval.size == direct.size and np.array_equal(np.ravel(fval), np.ravel(direct))):
                acc.violation('C02:%s:f_value:%s' % (cls, method), jc,
                              '%s(f, full_output=%s, %r)(%r): info.f_value %r != f(x) %r' % (cls, name, kw, x, fval.tolist(), direct.tolist()), 1)
            elif recs[name] != recs['True']:
                acc.violation('C02:%s:record-depends-on-flag-spelling:%s' % (cls, method), jc,
                              '%s(f, full_output=%s, %r)(%r) returned a different record than full_output=True' % (cls, name, kw, x), 2)
    fw.fresh_library_state()
    return acc


# -- short user step tables in the truncation-dominated range -------------------------------------------------------------
# With at most two extrapolated rows the reported estimate is Richardson's own (no dea3 stage).  Small base steps make
# successive rows agree to ~1e-9 although the true error is of that size too: the estimate must still cover it.
SHORT_FUNS = {'exp(x)': (np.exp, lambda x, n: math.exp(x)),
              'sin(x)': (np.sin, lambda x, n: math.sin(x + n * math.pi / 2)),
              '1/(1+x^2)': (lambda x: 1.0 / (1.0 + x * x), None)}


def short_cases():
    return [(fn, m, n, b, ns, x) for fn in ('exp(x)', 'sin(x)') for m in ('central', 'forward') for n in (1, 2)
            for b in (0.01, 0.02, 0.03, 0.05) for ns in (4, 5) for x in (0.5, 1.0)]


def work_short(chunk):
    import warnings
    import numdifftools as nd
    from numdifftools.step_generators import MinStepGenerator
    acc = fw.Acc()
    for fn, m, n, b, ns, x in chunk:
        f, ex = SHORT_FUNS[fn]
        case = ('short', fn, m, n, b, ns, x)
        jc = dict(kind='short', f=fn, method=m, n=n, base_step=b, num_steps=ns, x=x)
        with warnings.catch_warnings():
            warnings.simplefilter('ignore')
            val, info = nd.Derivative(f, n=n, method=m, step=MinStepGenerator(base_step=b, step_ratio=2, num_steps=ns),
                                      full_output=True)(x)
        exact = ex(x, n)
        err = abs(float(val) - exact)
        e = float(np.asarray(info.error_estimate).ravel()[0])
        K1 = cm.env('K1', m, n)
        bound = K1 * e + 1e-12 * max(abs(exact), 1.0)
        acc.case(case, nontrivial=True, cell='short-table/%s' % m, outcome=(m, n, err <= bound))
        if not (err <= bound):
            acc.violation('C02:Derivative:dishonest-estimate:short-table:%s:n=%d' % (m, n), jc,
                          'Derivative(%s, n=%d, %s, step=MinStepGenerator(base_step=%g, step_ratio=2, num_steps=%d))(%r): error '
                          '%.3g > K1=%g x estimate %.3g + 1e-12' % (fn, n, m, b, ns, x, err, K1, e), n)
    return acc


def run(ctx):
    sp = c01.specs(ctx)
    points = cm.quick_points(ctx) if ctx.quick else cm.POINTS
    acc = ctx.pmap(work, sp, chunk=1 if not ctx.quick else 2, points=points, tier=ctx.tier, quick_slice=ctx.seed % 4)
    if CALIBRATE:
        import json
        print(json.dumps({k: v for k, v in sorted(acc.extra.items())}, indent=0))
        return 0
    acc.merge(ctx.pmap(work_flags, flag_cases(), chunk=4))
    acc.merge(ctx.pmap(work_short, short_cases(), chunk=16))
    try:
        from mc.props import c02_multi
        acc.merge(c02_multi.run_multi(ctx))
    except ImportError:
        pass
    for s in sp[:3] + sp[len(sp) // 2:len(sp) // 2 + 2]:
        acc.sample(dict(f=c01.spec_show(s), points=points[:4], configs='all (method, n, order)', full_output=True))
    req = ['%s/n=%d' % (m, n) for m in cm.METHODS for n in range(1, cm.NMAX[m] + 1)] + ['flag/Derivative', 'flag/Hessian']
    rule = ('same space as C01 (%d specs x points %r x 240 configs, scalar + array calls%s) with full_output=True; '
            '(a) on class-A cases err <= K1(method,n) x error_estimate + F(method,n) x S_n x fac (constants frozen in '
            'envelopes.json, F <= E/100); (b) on every call: f_value == f(x) bit for bit, estimate finite and >= 0 where '
            'the result is finite, final_step inside the generated steps, one estimate and one final step per result '
            'entry.  Non-trivial = class A and F*S_n < |exact|/2.' % (len(sp), points,
                                                                    '; + user generator menu' if not ctx.quick else ''))
    return fw.finish(ctx, acc, LEVEL, rule, exhaustive=True, required_cells=req,
                     assumptions=['K1, F calibrated and frozen (DESIGN 4.2)', 'exact derivative from 60-digit jets'])


def replay(case):
    from mc.props import c02_multi
    if case.get('kind') == 'multi-jac':
        a = c02_multi.work_jac([(tuple(case['spec']), case['point'])])
        bad = [r['detail'] for k, (n, recs) in a.viol.items() for r in recs
               if (r['case'].get('cls'), r['case'].get('method'), r['case'].get('order')) == (case['cls'], case['method'], case['order'])]
        return not bad, '%r -> %s' % ({k: case[k] for k in ('spec', 'point', 'cls', 'method', 'order')}, bad or 'record consistent and honest')
    if 'xkind' in case and 'entry' in case:
        return c02_multi.replay(case)
    if case.get('kind') == 'fun-assigned':
        a = c02_multi.work_fun_assigned([(case['entry'], case['method'], case['start'])])
        bad = [r['detail'] for k, (n, recs) in a.viol.items() for r in recs]
        return not bad, '%r -> %s' % (case, bad or 'the record describes the assigned function')
    if case.get('kind') == 'short':
        a = work_short([(case['f'], case['method'], case['n'], case['base_step'], case['num_steps'], case['x'])])
        bad = [r['detail'] for k, (n, recs) in a.viol.items() for r in recs]
        return not bad, '%r -> %s' % (case, bad or 'estimate covers the error')
    if case.get('kind') == 'flag':
        a = work_flags([(case['cls'], case['method'], case['n'], case['order'], case['x'])])
        bad = [r['detail'] for k, (n, recs) in a.viol.items() for r in recs]
        return not bad, '%r -> %s' % (case, bad or 'same record for every spelling of a true full_output')
    spec = c01._tuplify(case['spec'])
    cfg = tuple(case['cfg'])
    gen = (case['gen'][0], case['gen'][1])
    x = case['x']
    combs = c01.spec_points(spec, [x])
    if not combs:
        return True, 'point not in domain'
    comb = combs[0]
    t = c01.terms(cfg, gen, comb)
    pi = cm.PointInfo()
    pi.x = x
    fun = c01.spec_fun(spec)
    res = cm.run_config(fun, cfg, gen, pi, None, True)
    if res['status'] != 'ok':
        return False, 'full_output call raised %s' % res['exc']
    method, n, order = cfg
    with np.errstate(all='ignore'):
        direct = fun(np.asarray(x))
    probs = record_problems(res, x, direct, gen, None, method, n)
    text = 'record problems: %r' % probs
    ok = not probs
    if n > 0 and t['classA']:
        v = c01._elem(res['val'], 'scalar')
        e = float(np.asarray(res['info'].error_estimate).ravel()[0])
        err = abs(v - t['exact'])
        K1, F = cm.env('K1', method, n), cm.env('F' if gen[0] == 'default' else 'FU', method, n)
        ok = ok and err <= K1 * e + F * t['S'] * t['fac']
        text += '; err %.3g, estimate %.3g, K1 %g, F*S %.3g' % (err, e, K1, F * t['S'] * t['fac'])
    return ok, '%s x=%r cfg=%r gen=%r: %s' % (c01.spec_show(spec), x, cfg, gen, text)
