"""C15 - fd_weights / fd_weights_all are the exact Lagrange-derivative weights (DESIGN 5/C15).

E1: node families x sizes 2..14 (+ all permutations of every family up to a size bound) x 5 expansion
points x every n < len(x).  Oracle: mc/oracle/lagrange.py (basis polynomials multiplied out in exact
rational arithmetic on the exactly converted floats; no recursion over node subsets).

Allowance (entry k, j):  100 * eps * S_kj  with  S_kj = k! e_{m-1-k}(|x_i - x0| : i != j) / prod |x_j - x_i|,
the same weight with all cancellation removed.  Fornberg's recursion forms every basis polynomial by
multiplying the factors (x - x_i)/(x_j - x_i) out one at a time (<= ~10 roundings per factor), so its
rounding error in entry (k, j) is at most ~10 m u S_kj <= 70 eps S_kj for m <= 14 - measured worst 6.
The planned allowance 1e4*eps*max_j|w_kj| of DESIGN is implied by this whenever the oracle-side
conditioning kappa_k = max_j S_kj / max_j |w_kj| is <= 100; rows with kappa_k > 100 (ill-conditioned:
the row-max allowance has no rounding argument there) are NOT skipped - they are held to the same
entry-wise allowance, counted, and their error in row-max units is reported separately.
"""
import itertools
import math
import warnings
from fractions import Fraction

import numpy as np

from mc import framework as fw
from mc.oracle import lagrange as lg

LEVEL = 'exploration'
EPS = float(np.finfo(float).eps)
C_ENTRY = 100                       # allowance = C_ENTRY * eps * S_kj
ALLOW = Fraction(C_ENTRY) * Fraction(EPS)
KAPPA_WELL = 100.0                  # rows with kappa_k <= this: DESIGN's 1e4*eps*rowmax is implied
FAMILIES = ['uniform-int', 'uniform-h0.1', 'one-sided', 'chebyshev', 'cubic-cluster', 'geometric',
            'reversed', 'interleaved']
X0KINDS = ['first-node', 'middle-node', 'centroid+0.0371', 'min-0.5', 'max+2']
# the same shapes on other scales and next to a symmetric stencil: nothing may be measured against an absolute size
SCALE_FAMILIES = ['tiny-offsets', 'coarse', 'near-symmetric', 'sub-eps']
FAMILY_X0 = {'tiny-offsets': ['first-node', 'middle-node', 'between-nodes-2^-36'],
             'coarse': ['first-node', 'middle-node', 'centroid+0.0371', 'max+2'],
             'near-symmetric': ['middle-node', 'middle-node+5e-9', 'first-node'],
             'sub-eps': ['first-node', 'middle-node', 'between-nodes-2^-60']}
SIZES = list(range(2, 15))
PERM7_FAMILIES = ['cubic-cluster', 'geometric']


def family(name, m):
    r = range(m)
    if name == 'uniform-int':
        return [float(i - m // 2) for i in r]
    if name == 'uniform-h0.1':
        return [0.3 + 0.1 * i for i in r]
    if name == 'one-sided':                  # fine uniform grid away from 0; x0 = first node gives
        return [1.0 + 0.01 * i for i in r]   # the classical one-sided stencils
    if name == 'chebyshev':
        return [math.cos(math.pi * (2 * i + 1) / (2 * m)) for i in r]
    if name == 'cubic-cluster':
        return [(2.0 * i / (m - 1) - 1.0) ** 3 for i in r]
    if name == 'geometric':
        return [0.01 * 1.5 ** i for i in r]
    if name == 'tiny-offsets':               # one-sided, non-uniform, offsets of order 1e-10 from 1 (exact in binary)
        return [1.0 + 2.0 ** -35 * (i * (i + 7) // 2) for i in r]
    if name == 'sub-eps':                    # distinct nodes around 0 whose gaps are below machine epsilon in absolute terms
        return [2.0 ** -58 * v for v in [0.0, 3.0, 1.0, 7.0, 4.0, 2.0, 9.0, 12.0, 5.0][:m]]
    if name == 'coarse':                     # spacing ~ 400
        return [4096.0 * (0.3 + 0.1 * i) for i in r]
    if name == 'near-symmetric':             # a symmetric integer stencil with two nodes moved by 3e-6 / 1e-6
        return [float(i - m // 2) + (3e-6 if i == 1 else (1e-6 if i == m - 1 and m > 2 else 0.0)) for i in r]
    if name == 'reversed':                   # decreasing, quadratically clustered at its start
        return [1.0 - (i / (m - 1.0)) ** 2 for i in r]
    if name == 'interleaved':                # Chebyshev-Lobatto nodes in the order first, last, second, ...
        lob = [math.cos(math.pi * i / (m - 1)) for i in r]
        order, lo, hi = [], 0, m - 1
        while lo <= hi:
            order.append(lo)
            if hi != lo:
                order.append(hi)
            lo, hi = lo + 1, hi - 1
        return [lob[i] for i in order]
    raise KeyError(name)


def x0_of(kind, x):
    if kind == 'first-node':
        return x[0]
    if kind == 'middle-node':
        return x[len(x) // 2]
    if kind == 'centroid+0.0371':
        return math.fsum(x) / len(x) + 0.0371
    if kind == 'between-nodes-2^-36':
        return x[1] + 2.0 ** -36
    if kind == 'between-nodes-2^-60':
        return x[1] + 2.0 ** -60
    if kind == 'middle-node+5e-9':
        return x[len(x) // 2] + 5e-9
    if kind == 'min-0.5':
        return min(x) - 0.5
    if kind == 'max+2':
        return max(x) + 2
    raise KeyError(kind)


def x0_class(x, x0):
    if x0 in x:
        return 'on-node'
    return 'inside' if min(x) < x0 < max(x) else 'outside'


_ORC = {}


def oracle(x, x0):
    """Exact W, S in the order of x (computed once per node SET and x0: the basis polynomial belongs
    to its node, so a permutation of the nodes permutes the columns)."""
    xs = tuple(sorted(x))
    key = (xs, x0)
    ent = _ORC.get(key)
    if ent is None:
        if len(_ORC) > 4000:
            _ORC.clear()
        W, S = lg.weights(xs, x0, with_scales=True)
        ent = _ORC[key] = (dict((v, i) for i, v in enumerate(xs)), W, S)
    col, W, S = ent
    idx = [col[v] for v in x]
    m = len(x)
    Wp = [[W[k][i] for i in idx] for k in range(m)]
    Sp = [[S[k][i] for i in idx] for k in range(m)]
    return Wp, Sp


def as_container(x, container):
    if container == 'ndarray':
        return np.array(x, dtype=float)
    if container == 'list':
        return list(x)
    if container == 'int64':
        return np.array([int(v) for v in x], dtype=np.int64)
    raise KeyError(container)


def check_call(x, x0, n, container, W, S):
    """One (x, x0, n): fd_weights_all and fd_weights.  returns (problems, stats, calls)
    problems: list of (key tail, detail); stats: dict of worst ratios / counters."""
    from numdifftools.fornberg import fd_weights_all, fd_weights
    m = len(x)
    xc = x0_class(x, x0)
    probs, stats, calls = [], {}, 0
    xa = as_container(x, container)
    with warnings.catch_warnings(), np.errstate(all='ignore'):
        warnings.simplefilter('ignore')
        try:
            calls += 1
            w = fd_weights_all(xa, x0, n)
        except Exception as e:
            return [('fd_weights_all:raised-%s:x0-%s' % (type(e).__name__, xc),
                     'fd_weights_all raised %s: %s' % (type(e).__name__, e))], stats, calls
        try:
            calls += 1
            w1 = fd_weights(as_container(x, container), x0, n)
        except Exception as e:
            w1 = None
            probs.append(('fd_weights:raised-%s:x0-%s' % (type(e).__name__, xc),
                          'fd_weights raised %s: %s' % (type(e).__name__, e)))
    # the same request with numpy scalars for x0 and n (what `for n in np.arange(m)` or `n = orders[k]` hand over)
    with warnings.catch_warnings(), np.errstate(all='ignore'):
        warnings.simplefilter('ignore')
        forms = [('fd_weights_all', fd_weights_all, np.int32(n), w), ('fd_weights', fd_weights, np.int64(n), w1)]
        if n in (0, 1):
            # a Python bool is an integer (n = want_slope): False is n = 0, True is n = 1
            forms += [('fd_weights_all', fd_weights_all, bool(n), w), ('fd_weights', fd_weights, bool(n), w1)]
        for name, fn, nn, ref in forms:
            if ref is None:
                continue
            try:
                calls += 1
                got = np.asarray(fn(as_container(x, container), np.float64(x0), nn))
            except Exception as e:
                probs.append(('%s:numpy-scalar-arguments:raised-%s' % (name, type(e).__name__),
                              '%s(x, np.float64(x0), %s(%d)) raised %s: %s' % (name, type(nn).__name__, n,
                                                                               type(e).__name__, e)))
                continue
            if got.shape != np.shape(ref) or got.tobytes() != np.ascontiguousarray(ref).tobytes():
                probs.append(('%s:numpy-scalar-arguments:differs' % name,
                              '%s with numpy scalars for x0 and n returned %r, with Python numbers %r'
                              % (name, got.tolist(), np.asarray(ref).tolist())))
    w = np.asarray(w)
    if w.shape != (n + 1, m) or w.dtype.kind != 'f':
        probs.append(('fd_weights_all:shape', 'returned shape %r dtype %s, documented (n+1, len(x)) = %r floats'
                      % (w.shape, w.dtype, (n + 1, m))))
        return probs, stats, calls
    if not np.all(np.isfinite(w)):
        probs.append(('fd_weights_all:nonfinite:x0-%s' % xc, 'non-finite weights %r' % (w.tolist(),)))
        return probs, stats, calls
    if w1 is not None:
        w1 = np.asarray(w1)
        if w1.shape != (m,) or w1.dtype != w.dtype or w1.tobytes() != np.ascontiguousarray(w[n]).tobytes():
            probs.append(('fd_weights:not-row-n-of-fd_weights_all',
                          'fd_weights(x, x0, %d) = %r but fd_weights_all(x, x0, %d)[%d] = %r'
                          % (n, w1.tolist(), n, n, w[n].tolist())))
    seen = set()
    for k in range(n + 1):
        rowcls = 'row0' if k == 0 else ('top-row' if k == n else 'lower-row')
        rowmax = max(abs(v) for v in W[k])
        smax = max(S[k])
        kappa = float(smax / rowmax)
        well = kappa <= KAPPA_WELL
        stats['rows'] = stats.get('rows', 0) + 1
        if not well:
            stats['rows_ill'] = stats.get('rows_ill', 0) + 1
        stats['kappa'] = max(stats.get('kappa', 0.0), kappa)
        tot = Fraction(0)
        for j in range(m):
            got = Fraction(float(w[k, j]))
            tot += got
            err = abs(got - W[k][j])
            if err == 0:
                continue
            sc = S[k][j]
            ru = float(err / rowmax) / EPS
            stats['u_rowmax_all'] = max(stats.get('u_rowmax_all', 0.0), ru)
            if well:
                stats['u_rowmax_well'] = max(stats.get('u_rowmax_well', 0.0), ru)
            if sc > 0:
                stats['u_S'] = max(stats.get('u_S', 0.0), float(err / sc) / EPS)
            if err > ALLOW * sc:
                tail = 'fd_weights_all:weights:%s:x0-%s' % (rowcls, xc)
                if tail not in seen:
                    seen.add(tail)
                    probs.append((tail, 'row %d entry %d (node %r): got %r, exact %.17g, error %.3g = %.3g eps*S '
                                  '(allowed %d), = %.3g eps*rowmax, kappa_row %.3g'
                                  % (k, j, x[j], float(w[k, j]), float(W[k][j]), float(err),
                                     float(err / sc) / EPS if sc > 0 else float('inf'), C_ENTRY, ru, kappa)))
        # row 0 interpolates constants (sum 1), rows k >= 1 annihilate constants (sum 0); exact sum of
        # the returned floats, allowance = sum of the entry allowances
        target = 1 if k == 0 else 0
        serr = abs(tot - target)
        sallow = ALLOW * sum(S[k])
        if serr > 0 and sallow > 0:
            stats['u_sum'] = max(stats.get('u_sum', 0.0), float(serr / sallow) * C_ENTRY)
        if serr > sallow:
            tail = 'fd_weights_all:rowsum:%s:x0-%s' % (rowcls, xc)
            if tail not in seen:
                seen.add(tail)
                probs.append((tail, 'row %d sums to %.17g, must be %d (allowance %.3g)'
                              % (k, float(tot), target, float(sallow))))
    return probs, stats, calls


def check_guard(x, x0, n, container):
    """n >= len(x) must raise ValueError from both entry points."""
    from numdifftools.fornberg import fd_weights_all, fd_weights
    probs, calls = [], 0
    for name, fn in (('fd_weights_all', fd_weights_all), ('fd_weights', fd_weights)):
        calls += 1
        with warnings.catch_warnings(), np.errstate(all='ignore'):
            warnings.simplefilter('ignore')
            try:
                r = fn(as_container(x, container), x0, n)
            except ValueError:
                continue
            except Exception as e:
                probs.append(('%s:length-guard:raised-%s' % (name, type(e).__name__),
                              '%s with n=%d >= len(x)=%d raised %s (%s), documented ValueError'
                              % (name, n, len(x), type(e).__name__, e)))
                continue
        probs.append(('%s:length-guard:returned' % name,
                      '%s with n=%d >= len(x)=%d returned an array of shape %r instead of raising ValueError'
                      % (name, n, len(x), np.shape(r))))
    return probs, calls


STAT_NAMES = {
    'u_S': 'worst_entry_error_in_eps*S_units(allowance_100)',
    'u_rowmax_well': 'worst_entry_error_in_eps*rowmax_units_rows_kappa<=100(DESIGN_allowance_1e4)',
    'u_rowmax_all': 'worst_entry_error_in_eps*rowmax_units_all_rows',
    'u_sum': 'worst_rowsum_error_in_eps*sum(S)_units(allowance_100)',
    'kappa': 'max_row_conditioning_kappa',
}


def work(chunk):
    acc = fw.Acc()
    for tag, fam, container, x in chunk:
        x = list(x)
        m = len(x)
        is_sorted = x == sorted(x) or x == sorted(x, reverse=True)
        for kind in FAMILY_X0.get(fam, X0KINDS):
            x0 = x0_of(kind, x)
            W, S = oracle(x, x0)
            for n in range(m):
                probs, stats, calls = check_call(x, x0, n, container, W, S)
                nontrivial = sum(1 for v in W[n] if v != 0) >= 2
                cells = ['family=' + fam, 'x0=' + kind, 'size=%d' % m, 'n=%d' % n,
                         'order=' + ('monotone' if is_sorted else 'scrambled'), 'x0-class=' + x0_class(x, x0)]
                if tag == 'perm':
                    cells.append('all-permutations/size=%d' % m)
                if container != 'ndarray':
                    cells.append('container=' + container)
                acc.case((tuple(x), x0, n, container), nontrivial=nontrivial, cell=cells, n_eval=calls,
                         outcome=(m, n, x0_class(x, x0), tuple(sorted(p[0] for p in probs))))
                for name, v in stats.items():
                    if name == 'rows':
                        acc.count('rows_checked', v)
                    elif name == 'rows_ill':
                        acc.count('rows_ill_conditioned_kappa>100(entrywise_allowance_still_enforced)', v)
                    else:
                        acc.maxi(STAT_NAMES[name], v)
                case = dict(x=x, x0=x0, n=n, container=container, family=fam, x0kind=kind, mode='weights')
                for tail, detail in probs:
                    acc.violation('C15:' + tail, case, detail, rank=m * 1000 + n * 10 + (tag == 'perm'))
            if kind in ('first-node', 'max+2'):
                for n in (m, m + 1):
                    probs, calls = check_guard(x, x0, n, container)
                    acc.case((tuple(x), x0, n, container, 'guard'), nontrivial=True, cell='length-guard/n>=len(x)',
                             n_eval=calls, outcome=('guard', tuple(p[0] for p in probs)))
                    case = dict(x=x, x0=x0, n=n, container=container, family=fam, x0kind=kind, mode='guard')
                    for tail, detail in probs:
                        acc.violation('C15:' + tail, case, detail, rank=m * 1000 + n * 10)
    return acc


def build_cases(ctx):
    perm_max = 5 if ctx.quick else 6
    cases, seen = [], set()

    def add(tag, fam, container, x):
        key = (container, tuple(x))
        if key in seen:
            return
        seen.add(key)
        cases.append((tag, fam, container, tuple(x)))

    for m in SIZES:
        for fam in FAMILIES:
            add('family', fam, 'ndarray', family(fam, m))
        add('family', 'uniform-int', 'list', family('uniform-int', m))
        add('family', 'uniform-int', 'int64', family('uniform-int', m))
        add('family', 'chebyshev', 'list', family('chebyshev', m))
        if m <= 9:
            for fam in SCALE_FAMILIES:
                add('family', fam, 'ndarray', family(fam, m))
    nperm = 0
    for m in range(2, perm_max + 1):
        for fam in FAMILIES:
            for p in itertools.permutations(family(fam, m)):
                n0 = len(cases)
                add('perm', fam, 'ndarray', p)
                nperm += len(cases) - n0
    if not ctx.quick:                        # size 7 for the two most irregular families only (cost)
        for fam in PERM7_FAMILIES:
            for p in itertools.permutations(family(fam, 7)):
                n0 = len(cases)
                add('perm', fam, 'ndarray', p)
                nperm += len(cases) - n0
    return cases, perm_max, nperm


# ---------------------------------------------------------------------------------------------
# two-step histories: the weights must not depend on an earlier call (same offsets, other order, ...)

def history_cases():
    nodes = [np.array([-2.0, -1.0, 0.0, 1.0, 2.0]), np.array([0.5, 2.0, -1.0, 0.25, 1.25, -0.75])]
    out = []
    for ni in range(len(nodes)):
        for x0 in (0.0, 0.3):
            for n in (1, 2, 4):
                for fn in ('all', 'one'):
                    out.append((ni, x0, n, fn))
    return nodes, out


def history_run(case, shared):
    from numdifftools.fornberg import fd_weights, fd_weights_all
    nodes, _ = history_cases()
    ni, x0, n, fn = case
    try:
        return fw.obs((fd_weights_all if fn == 'all' else fd_weights)(nodes[ni], x0, n))
    except Exception as e:
        return fw.obs(e)


def work_history(chunk):
    acc = fw.Acc()
    fw.pair_histories(acc, 'C15', 'fd_weights-call-order', history_cases()[1], history_run)
    return acc


def run(ctx):
    cases, perm_max, nperm = build_cases(ctx)
    # deal the cases (most expensive first) over the chunks so that chunks have similar cost
    chunk = 6
    by_cost = sorted(cases, key=lambda c: -len(c[3]))
    nchunks = -(-len(by_cost) // chunk)
    dealt = [c for i in range(nchunks) for c in by_cost[i::nchunks]]
    acc = ctx.pmap(work, dealt, chunk=chunk)
    acc.merge(ctx.pmap(work_history, [0], chunk=1))
    for fam in FAMILIES[:6]:
        x = family(fam, 5)
        acc.sample(dict(family=fam, x=x, x0={k: x0_of(k, x) for k in X0KINDS}, n='0..4'))
    acc.sample(dict(family='interleaved', x=family('interleaved', 14), x0=x0_of('centroid+0.0371', family('interleaved', 14)),
                    n='0..13'))
    acc.sample(dict(permutation_of='cubic-cluster size 5', x=list(itertools.permutations(family('cubic-cluster', 5)))[77],
                    n='0..4'))
    acc.sample(dict(length_guard='n in {len(x), len(x)+1} for every node vector, x0 in {first node, max+2}'))
    req = (['family=' + f for f in FAMILIES + SCALE_FAMILIES] + ['x0=' + k for k in X0KINDS + ['between-nodes-2^-36', 'middle-node+5e-9']] + ['size=%d' % m for m in SIZES] +
           ['n=%d' % n for n in range(0, 14)] + ['all-permutations/size=%d' % m for m in range(3, perm_max + (1 if ctx.quick else 2))] +
           ['order=monotone', 'order=scrambled', 'x0-class=on-node', 'x0-class=inside', 'x0-class=outside',
            'container=list', 'container=int64', 'length-guard/n>=len(x)'])
    rule = ('8 node families x sizes 2..14 (+ list / int64 containers for two families; + sizes 2..9 of three scale families: '
            'offsets of order 1e-10 from 1, spacing ~400, a symmetric stencil with two nodes moved by 1e-6 and x0 moved by 5e-9) + ALL permutations of every '
            'family for sizes <= %d (thorough: also size 7 of cubic-cluster and geometric; %d distinct vectors '
            'after removing duplicates) x x0 in {first node, middle node, '
            'centroid+0.0371, min-0.5, max+2} x every n < len(x); each (x, x0, n) calls fd_weights_all and fd_weights. '
            'Every entry of every returned row k must lie within 100*eps*S_kj of the exact rational weight, '
            'S_kj = k! e_(m-1-k)(|x_i-x0|, i!=j)/prod|x_j-x_i| (the weight with all cancellation removed): the '
            'recursion multiplies the basis polynomials out factor by factor with <= ~10 roundings per factor, so '
            'its error is <= ~10*m*u*S_kj <= 70 eps*S_kj for m <= 14.  For rows with kappa = max S/max|w| <= 100 this '
            'implies the planned 1e4*eps*max_j|w_kj|; rows with kappa > 100 are counted, not skipped.  Row sums '
            '(1 for row 0, 0 otherwise) exact-summed within the summed allowance; fd_weights bit-identical to '
            'row n; n in {len, len+1} must raise ValueError.  Non-trivial = exact row n has >= 2 non-zero entries.'
            % (perm_max, nperm))
    return fw.finish(ctx, acc, LEVEL, rule, exhaustive=True, required_cells=req,
                     assumptions=['floats are converted exactly to rationals; the oracle multiplies the Lagrange basis '
                                  'polynomials out in integer arithmetic and shares no code with numdifftools',
                                  'node values are the fixed families of this driver; nothing is claimed for other '
                                  'node sets or sizes above 14',
                                  'x0 kinds first/middle node are positions in the given order, so over all '
                                  'permutations every node of the set serves as x0'],
                     coverage_extra={'permutation_size_bound': perm_max, 'node_vectors': len(cases)})


def replay(case):
    if case.get('kind') == 'history':
        cs = history_cases()[1]
        a, b = cs[case['i']], cs[case['j']]
        fw.fresh_library_state()
        alone = history_run(b, {})
        fw.fresh_library_state()
        history_run(a, {})
        got = history_run(b, {})
        fw.fresh_library_state()
        return got == alone, 'fd_weights %r then %r: %s' % (a, b, 'same' if got == alone else 'differs from the call alone')
    x = [float(v) for v in case['x']]
    x0 = float(case['x0'])
    n = int(case['n'])
    container = case.get('container', 'ndarray')
    if case.get('mode') == 'guard':
        probs, _ = check_guard(x, x0, n, container)
    else:
        W, S = oracle(x, x0)
        probs, _, _ = check_call(x, x0, n, container, W, S)
    text = 'x=%r x0=%r n=%d container=%s -> %s' % (x, x0, n, container,
                                                    '; '.join('%s: %s' % p for p in probs) or 'ok')
    return not probs, text
