"""Fresh-interpreter reference for C09: imports the library, performs exactly one construction and one
call, prints the observation.  Usage: python c09_ref.py '<json: fname, method, n, order, gen, x>'"""
import json
import os
import sys

os.environ.setdefault('OMP_NUM_THREADS', '1')
sys.path.insert(0, os.path.dirname(os.path.dirname(os.path.dirname(os.path.abspath(__file__)))))
from mc.framework import setup_paths  # noqa: E402

setup_paths()
import warnings  # noqa: E402

import numpy as np  # noqa: E402

def mexp(x):
    return np.exp(x[0]) + x[0] * x[1] * x[1] + np.sin(x[1])


def vexp(x):
    return np.array([np.exp(x[0]) * x[1], x[0] + np.sin(x[1]) * x[0]])


def wexp(x):
    """exp that emits a Python warning on every evaluation (user functions do: overflow, deprecation, their own)"""
    warnings.warn('noise from the user function')
    return np.exp(x)


FUNS = {'exp': np.exp, 'sin': np.sin, 'mexp': mexp, 'vexp': vexp, 'wexp': wexp}


def build(fname, method, n, order, gen, shared=None, cls='Derivative'):
    import numdifftools as nd
    from numdifftools.step_generators import MinStepGenerator, MaxStepGenerator
    kw = dict(method=method, full_output=True)
    if cls == 'Derivative':
        kw['n'] = n
    if cls != 'Hessian':
        kw['order'] = order
    if gen == 'max':
        kw['step'] = shared['max'] if shared else MaxStepGenerator()
    elif gen == 'min':
        kw['step'] = shared['min'] if shared else MinStepGenerator()
    elif gen in ('max+opts', 'min+opts'):
        # step options given NEXT TO a generator object (whatever the library does with them, it must not do it to the
        # caller's generator, which other objects share)
        kw['step'] = shared[gen[:3]] if shared else (MaxStepGenerator() if gen[:3] == 'max' else MinStepGenerator())
        kw.update(step_nom=1000.0, offset=2, num_extrap=3)
    elif gen == 'ratio3':
        kw['step_ratio'] = 3
    return getattr(nd, cls)(FUNS[fname], **kw)


def encode(a):
    a = np.asarray(a)
    return [str(a.dtype), list(a.shape), a.tobytes().hex()]


def observe(obj, x):
    with warnings.catch_warnings():
        warnings.simplefilter('ignore')
        try:
            val, info = obj(np.asarray(x) if isinstance(x, list) else x)
        except Exception as e:
            return ['exc', type(e).__name__]
    return ['ok', encode(val), encode(info.f_value), encode(info.error_estimate), encode(info.final_step),
            encode(info.index)]


def observe_raw(obj, x):
    """observe() without a warnings context of its own (the warnings machinery is process-global: a context entered by
    the caller of one thread would hide what the other thread's user function emits)"""
    try:
        val, info = obj(np.asarray(x) if isinstance(x, list) else x)
    except Exception as e:
        return ['exc', type(e).__name__]
    return ['ok', encode(val), encode(info.f_value), encode(info.error_estimate), encode(info.final_step),
            encode(info.index)]


def observe_array(obj, arr):
    """same as observe but hands over the caller's ndarray object itself"""
    with warnings.catch_warnings():
        warnings.simplefilter('ignore')
        try:
            val, info = obj(arr)
        except Exception as e:
            return ['exc', type(e).__name__]
    return ['ok', encode(val), encode(info.f_value), encode(info.error_estimate), encode(info.final_step),
            encode(info.index)]


if __name__ == '__main__':
    c = json.loads(sys.argv[1])
    obj = build(c['fname'], c['method'], c['n'], c['order'], c['gen'], cls=c.get('cls', 'Derivative'))
    print(json.dumps(observe(obj, c['x'])))
