"""C03 - Jacobian, Gradient, directionaldiff: right entries and shapes for any R^n -> R^m
(DESIGN 5/C03).

E1: map (affine / ridge, scalar / vector / matrix valued; mc/oracle/ridge.py) x point family x input
form x method x order, every element executed on the real classes.  One work item = one map.

Oracle (shares no code with numdifftools):
  * shape: exactly (m, n); (m, n, k) for matrix-valued f; a column x of shape (n, 1) makes an indexing
    function return (m, 1) values, hence (m, n, 1); a 0-d or length-1 vector value gives (1, n);
  * entries: closed-form partial derivatives in 60-digit mpmath (cross-checked against jets), judged
    with the one-variable accuracy scale S_1 of the restriction t -> f_i(x + t e_j) and the frozen
    envelope constant E(method, 1) of Derivative, on class-A entries only;
  * affine maps: exact to 1e4 eps (|A||x| + |b| + |A_ij|);
  * Gradient: shape of the flattened x (0-d for one element), bit-identical to the Jacobian row;
  * directionaldiff: equals Gradient . v/|v| within K1 (sum of the error estimates) + floor, and the
    exact directional derivative within the envelope.

VERIF_CALIBRATE=1: no accuracy verdicts, prints the worst observed ratios instead.
"""
import math
import os
import warnings

import mpmath as mp
import numpy as np

from mc import framework as fw
from mc.oracle import ridge, scale as sc
from mc.props import c01_common as cm

LEVEL = 'exploration'
CALIBRATE = bool(os.environ.get('VERIF_CALIBRATE'))
EPS = float(np.finfo(float).eps)
METHODS = list(cm.METHODS)
ORDERS = (2, 4)
RATIOS = (4.0, 1.6, 'negative-steps')   # non-default step_ratio option; a user generator whose steps are all negative
#                                         (affine maps only: exact for every ratio and either sign of the steps)
K1 = 100.0
AFFINE_UNITS = 1e4
AFFINE_RATIO_REL = 1e-6
E_FALLBACK = dict(central=1e-9, complex=1e-9, multicomplex=1e-9, forward=1e-6, backward=1e-6)
REAL_STEP = ('central', 'forward', 'backward')
DEFAULT_GEN = ('default', {})

JAC_FORMS = ('list', 'array', 'column', 'float', 'zerod')
GRAD_FORMS = ('list', 'array', 'column', 'row', '2d', 'float', 'zerod', 'nested')
V_KINDS = ('e_i', 'ones', 'alt', 'small-ones', 'big-e1', 'ramp')
V_FORMS = ('list', 'array', 'column')
DD_XFORMS = ('list', 'array')
N_VARIANTS = 12


def E_of(method):
    """Frozen envelope constant of Derivative for (method, n=1); fallback while envelopes.json is absent."""
    if cm.ENV is None or 'E' not in cm.ENV or ('%s/1' % method) not in cm.ENV['E']:
        return E_FALLBACK[method]
    return cm.env('E', method, 1)


# ---------------------------------------------------------------------------------------------
# the enumerated space

def bounds(tier):
    return dict(N=6, M=4, K=3) if tier == 'quick' else dict(N=8, M=6, K=4)


def specs(ctx):
    """All maps of the tier.  Quick: a seed-rotated slice of the ridge variants; thorough: all."""
    b = bounds(ctx.tier)
    v_vec = ctx.rotate(range(N_VARIANTS), 3)
    v_mat = ctx.rotate(range(3), 1)
    out = []
    for n in range(1, b['N'] + 1):
        out.append(('affine', 'scalar', 1, n, 1, 0))
        out += [('ridge', 'scalar', 1, n, 1, v) for v in v_vec]
        for m in range(1, b['M'] + 1):
            out.append(('affine', 'vector', m, n, 1, 0))
            out += [('ridge', 'vector', m, n, 1, v) for v in v_vec]
            for k in range(1, b['K'] + 1):
                out.append(('affine', 'matrix', m, n, k, 0))
                out += [('ridge', 'matrix', m, n, k, v) for v in v_mat]
    return out


def jac_forms(spec):
    family, out, m, n, k, variant = spec
    forms = ['list', 'array']
    if out != 'matrix':
        forms.append('column')
    if n == 1:
        forms += ['float', 'zerod']
    return forms


def grad_forms(n):
    if n == 1:
        return ['list', 'array', 'float', 'zerod', 'nested']
    forms = ['list', 'array', 'column', 'row']
    if n % 2 == 0:
        forms.append('2d')
    return forms


def v_list(n):
    """(kind, label, vector) for the direction menu."""
    out = [('e_i', 'e_%d' % i, [1.0 if j == i else 0.0 for j in range(n)]) for i in range(n)]
    out.append(('ones', 'ones', [1.0] * n))
    out.append(('alt', 'alt', [(-1.0) ** j for j in range(n)]))
    out.append(('small-ones', 'small-ones', [1e-3] * n))
    out.append(('big-e1', 'big-e1', [1e3] + [0.0] * (n - 1)))
    out.append(('ramp', 'ramp', [float(j + 1) for j in range(n)]))      # full rank when reshaped to a matrix
    return out


def dd_form_pairs(tier):
    # '2d': x0 given as a (2, n/2) matrix (documented: "If x0 is an nXm array, then f is assumed to be a function of
    # n*m variables"), v as a matrix of the same shape or as a flat list
    extra = [('2d', '2d'), ('2d', 'list')]
    if tier == 'quick':
        return [('list', 'list'), ('array', 'array'), ('array', 'column')] + extra
    return [(a, b) for a in DD_XFORMS for b in V_FORMS] + extra


def make_x(x, form):
    if form == 'list':
        return [float(v) for v in x]
    if form == 'array':
        return np.array(x, dtype=float)
    if form == 'column':
        return np.array(x, dtype=float).reshape(-1, 1)
    if form == 'row':
        return np.array(x, dtype=float).reshape(1, -1)
    if form == '2d':
        return np.array(x, dtype=float).reshape(2, -1)
    if form == 'float':
        return float(x[0])
    if form == 'zerod':
        return np.array(float(x[0]))
    if form == 'nested':
        return [[float(x[0])]]
    raise ValueError(form)


def form_class(form):
    return {'list': '1d', 'array': '1d', 'column': 'column', 'float': '0d', 'zerod': '0d',
            'row': '2d', '2d': '2d', 'nested': '2d'}[form]


def shape_class(m, n):
    return '%s,%s' % ('m=1' if m == 1 else 'm>=2', 'n=1' if n == 1 else 'n>=2')


def value_class(spec, form):
    """Structural class of the call for the finding keys: dimensionality of the value f returns
    (a column x turns a 0-d value into a length-1 vector and a length-m vector into an (m, 1) matrix)
    and which of m, n, k are 1."""
    family, out, m, n, k, variant = spec
    col = form == 'column'
    vk = {'scalar': 'vector' if col else 'scalar', 'vector': 'matrix' if col else 'vector', 'matrix': 'matrix'}[out]
    s = '%s:%s' % (vk, shape_class(m, n))
    if vk == 'matrix':
        s += ',k=1' if k == 1 else ',k>=2'
    return s


def expected_jac_shape(spec, form):
    family, out, m, n, k, variant = spec
    if out == 'matrix':
        return (m, n, k)
    if out == 'vector' and form == 'column':
        return (m, n, 1)
    return (m, n)


# ---------------------------------------------------------------------------------------------
# oracle side

_HMAX = {}


def hmax_of(method, order, xj):
    key = (method, order, float(xj))
    if key not in _HMAX:
        _HMAX[key] = cm.oracle_steps(method, 1, order, float(xj), DEFAULT_GEN)[0]
    return _HMAX[key]


class PointOracle(object):
    """Closed forms of one map at one point: restriction of every entry along every axis."""

    def __init__(self, spec, ptk):
        family, out, m, n, k, variant = spec
        self.spec, self.ptk = spec, ptk
        self.x = ridge.point(ptk, n)
        self.ent = ridge.entries(spec)
        self.R = {}
        self.need_scale = family == 'ridge' or out == 'scalar'
        if self.need_scale:
            for il, e in self.ent.items():
                self.R[il] = [ridge.partial(e, self.x, j) for j in range(n)]
        self._plans = {}
        self._dir = {}

    def index(self, i, j, l, shape):
        return (i, j, l) if len(shape) == 3 else (i, j)

    def plan(self, method, order):
        """Which entries carry an accuracy claim for (method, order), with allowances; oracle side only.
        Returns list of (i, j, l, exact, allow_unit, nontrivial) and the number of unjudged entries."""
        key = (method, order)
        if key in self._plans:
            return self._plans[key]
        family, out, m, n, k, variant = self.spec
        E = E_of(method)
        items, skipped = [], 0
        for (i, l), e in sorted(self.ent.items()):
            for j in range(n):
                if family == 'affine':
                    unit = ridge.affine_allowance_unit(e, self.x, j)
                    exact = mp.mpf(e[1][j])
                    items.append((i, j, l, exact, unit, AFFINE_UNITS * EPS * unit < abs(e[1][j]) / 2))
                    continue
                r = self.R[(i, l)][j]
                t = entry_terms(r, method, hmax_of(method, order, self.x[j]))
                if t is None:
                    skipped += 1
                    continue
                items.append((i, j, l, r.exact, t, E * t < float(abs(r.exact)) / 2))
        self._plans[key] = (items, skipped)
        return self._plans[key]

    def direction(self, label, v):
        """Restriction of the scalar map along v/|v| (Derivative is called at t = 0: step_nom = 1)."""
        if label not in self._dir:
            u = ridge.unit(v)
            self._dir[label] = (u, ridge.restriction(self.ent[(0, 0)], self.x, u, sc.step_nom(0.0)))
        return self._dir[label]


def entry_terms(r, method, hmax):
    """allow_unit = S_1 x max(1, rho/h_max) if the entry is class A for this method, else None."""
    if hmax is None or not r.resolved or not math.isfinite(r.S) or not r.S > 0:
        return None        # S = 0: value, derivative and first-order noise all vanish - nothing to measure against
    if not r.R_an >= cm.C_A[method] * hmax:
        return None
    fac = 1.0
    if method in REAL_STEP and hmax > 0:
        fac = max(1.0, r.rho / hmax)
    return r.S * fac


# ---------------------------------------------------------------------------------------------
# library side

def call(fn):
    """Run one library call with a cold rule cache.  ('ok', value) or ('raised-X', text)."""
    import numdifftools.finite_difference as fdm
    fw.fresh_library_state()
    try:
        with warnings.catch_warnings():
            warnings.simplefilter('ignore')
            with np.errstate(all='ignore'):
                return 'ok', fn()
    except Exception as e:                      # noqa: BLE001 - any exception is a verdict
        return 'raised-' + type(e).__name__, '%s: %s' % (type(e).__name__, e)


def bits_equal(a, b):
    a, b = np.asarray(a), np.asarray(b)
    if a.shape != b.shape:
        return False
    return bool(np.all((a == b) | ((a != a) & (b != b))))


def _err(v, exact):
    v = complex(v)
    if v.imag != 0 or not math.isfinite(v.real):
        return float('nan') if not (math.isfinite(v.real) and math.isfinite(v.imag)) else abs(v - complex(exact))
    return float(abs(mp.mpf(v.real) - exact))


def _rank(spec, order, extra=0):
    family, out, m, n, k, variant = spec
    return n * 10000 + m * 1000 + k * 100 + (0 if family == 'affine' else 50) + order + extra


def _jc(part, spec, ptk, form, method, order, **kw):
    d = dict(part=part, spec=list(spec), point=ptk, form=form, method=method, order=order,
             f=ridge.describe(spec), x=ridge.point(ptk, spec[3]))
    d.update(kw)
    return d


# -- Jacobian ------------------------------------------------------------------------------------

def do_jac(acc, orc, form, method, order, ratio=None):
    import numdifftools as nd
    spec, ptk = orc.spec, orc.ptk
    family, out, m, n, k, variant = spec
    fun = ridge.make_fun(spec)
    x = make_x(orc.x, form)
    items, skipped = orc.plan(method, order)
    nontriv = any(it[5] for it in items)
    case = ('jac', spec, ptk, form, method, order)
    jc = _jc('jac', spec, ptk, form, method, order)
    opts = {}
    if ratio is not None:          # the step_ratio option (affine maps stay exact for every ratio)
        case, opts = case + (ratio,), dict(step_ratio=ratio)
        jc['step_ratio'] = ratio
        if ratio == 'negative-steps':
            from numdifftools.step_generators import MaxStepGenerator
            opts = dict(step=MaxStepGenerator(base_step=-1.0, step_ratio=2.0, num_steps=10))
    rank = _rank(spec, order, JAC_FORMS.index(form))
    sclass, vclass = shape_class(m, n), value_class(spec, form)
    cells = ['jac/method=%s/order=%d' % (method, order), 'jac/form=%s' % form, 'jac/family=%s' % family,
             'jac/out=%s' % out, 'jac/point=%s' % ptk, 'jac/%s/%s' % (out, sclass)]
    if out == 'vector' and (m == 1) != (n == 1):
        cells.append('jac/shape/m=%d,n=%d' % (m, n))
    if out == 'vector' and m == 1 and n >= 2:
        cells += ['jac/m=1,n>=2/%s' % method, 'jac/m=1,n>=2/form=%s' % form]
    if out == 'matrix':
        cells.append('jac/matrix/k=%d' % k)
    if family == 'ridge':
        for (i, l), e in orc.ent.items():
            cells += ['ridge/g=%s' % e[1], 'ridge/h=%s' % e[2]]
        cells = sorted(set(cells))
    want = expected_jac_shape(spec, form)
    head = 'Jacobian(f, method=%r, order=%d%s)(x) with f = %s, x = %r (%s)' % (
        method, order, '' if ratio is None else (', step_ratio=%r' % ratio if ratio != 'negative-steps' else
                                               ', step=MaxStepGenerator(base_step=-1.0, step_ratio=2.0, num_steps=10)'),
        ridge.describe(spec), orc.x, form)
    if ratio is not None:
        cells = cells + ['jac/step_ratio=%r' % ratio]

    status, val = call(lambda: nd.Jacobian(fun, method=method, order=order, **opts)(x))
    if status != 'ok':
        acc.case(case, nontrivial=nontriv, cell=cells, outcome=status)
        acc.violation('C03:Jacobian:%s:%s' % (status, vclass), jc, '%s raised %s' % (head, val), rank)
        return '%s raised %s' % (head, val)
    got = np.shape(val)
    if tuple(got) != tuple(want):
        acc.case(case, nontrivial=nontriv, cell=cells, outcome=('shape', got))
        text = '%s has shape %r, expected %r' % (head, got, want)
        acc.violation('C03:Jacobian:shape:%s' % vclass, jc, text, rank)
        return text
    val = np.asarray(val)
    E = E_of(method)
    worst, worst_item, nbad, nonfinite = 0.0, None, 0, False
    for (i, j, l, exact, unit, nt) in items:
        v = val[orc.index(i, j, l, got)]
        err = _err(v, exact)
        if family == 'affine' and opts:
            # non-default step_ratio: the 15 default steps reach down to ~1e-9, a difference quotient of an affine map
            # carries the rounding of f divided by the step: allowance 1e-6 x (|A||x| + |b| + |A_ij|)
            ratio = err / (AFFINE_RATIO_REL * unit)
            acc.maxi('worst/affine-rel-units-nondefault-ratio/%s' % method, err / unit)
        elif family == 'affine':
            ratio = err / (AFFINE_UNITS * EPS * unit)
            acc.maxi('worst/affine-eps-units/%s' % method, err / (EPS * unit))
        else:
            ratio = err / unit if unit > 0 else (0.0 if err == 0 else float('inf'))
            acc.maxi('worst/jac-err-over-S/%s' % method, ratio if math.isfinite(ratio) else 1e300)
            if CALIBRATE:
                acc.maxi('E/jac/%s' % method, (ratio if math.isfinite(ratio) else 1e300,
                                               '%s entry %r order=%d value %r exact %s S=%.3g' % (
                                                   head, (i, j, l), order, v, mp.nstr(exact, 17), unit)))
            ratio = ratio / E
        if not ratio <= 1.0:
            nbad += 1
            nonfinite = nonfinite or not math.isfinite(ratio)
        rr = ratio if ratio == ratio else float('inf')
        if worst_item is None or rr > worst:
            worst, worst_item = rr, (i, j, l, v, exact, err, unit)
    acc.count('jac-entries-judged', len(items))
    acc.count('jac-entries-not-class-A', skipped)
    lg = round(math.log10(worst + 1e-300)) if math.isfinite(worst) else 999
    acc.case(case, nontrivial=nontriv, cell=cells, outcome=('jac', method, got, lg))
    summary = '%s: shape %r ok, %d entries judged (%d not class A), worst error/allowance %.3g' % (
        head, got, len(items), skipped, worst)
    if nbad and not (CALIBRATE and family == 'ridge'):
        i, j, l, v, exact, err, unit = worst_item
        if family == 'affine':
            key = 'C03:Jacobian:affine-inexact:%s:%s' % (method, out)
            text = ('%s: entry [%s] = %r, exact %s: error %.3g > %s x (|A||x|+|b|+|A_ij|) = %.3g; %d of %d entries '
                    'fail' % (head, (i, j, l), v, mp.nstr(exact, 17), err, '1e-6' if opts else '1e4 eps',
                              (AFFINE_RATIO_REL if opts else AFFINE_UNITS * EPS) * unit, nbad, len(items)))
        else:
            key = 'C03:Jacobian:%s:%s:%s' % ('nonfinite' if nonfinite else 'envelope', method, out)
            text = ('%s: entry [%s] = %r, exact d f[%d,%d]/d x_%d = %s: error %.3g > E=%g x S=%.3g; %d of %d class-A '
                    'entries fail' % (head, (i, j, l), v, i, l, j, mp.nstr(exact, 17), err, E, unit, nbad, len(items)))
        acc.violation(key, jc, text, rank)
        return text
    return summary


# -- Gradient ------------------------------------------------------------------------------------

def do_grad(acc, orc, form, method, order):
    import numdifftools as nd
    spec, ptk = orc.spec, orc.ptk
    family, out, m, n, k, variant = spec
    fun = ridge.make_fun(spec)
    x = make_x(orc.x, form)
    flat = np.array(orc.x, dtype=float)
    exact = [orc.R[(0, 0)][j].exact for j in range(n)]
    nontriv = all(e != 0 for e in exact)
    case = ('grad', spec, ptk, form, method, order)
    jc = _jc('grad', spec, ptk, form, method, order)
    rank = _rank(spec, order, GRAD_FORMS.index(form))
    fclass = form_class(form)
    cells = ['grad/form=%s' % form, 'grad/method=%s/order=%d' % (method, order), 'grad/family=%s' % family,
             'grad/size1' if n == 1 else 'grad/size>1']
    head = 'Gradient(f, method=%r, order=%d)(x) with f = %s, x = %r (%s)' % (
        method, order, ridge.describe(spec), orc.x, form)
    want = () if n == 1 else (n,)

    status, val = call(lambda: nd.Gradient(fun, method=method, order=order)(x))
    if status != 'ok':
        acc.case(case, nontrivial=nontriv, cell=cells, outcome=status)
        acc.violation('C03:Gradient:%s:x-%s:%s' % (status, fclass, 'size1' if n == 1 else 'size>1'), jc,
                      '%s raised %s' % (head, val), rank)
        return '%s raised %s' % (head, val)
    got = tuple(np.shape(val))
    if got != want:
        acc.case(case, nontrivial=nontriv, cell=cells, outcome=('shape', got))
        text = '%s has shape %r, expected %r (shape of the flattened x; 0-d for one element)' % (head, got, want)
        acc.violation('C03:Gradient:shape:x-%s:%s' % (fclass, 'size1' if n == 1 else 'size>1'), jc, text, rank)
        return text
    # the same request with the info record switched on: (value, info) with a value of the same shape
    status, full = call(lambda: nd.Gradient(fun, method=method, order=order, full_output=True)(x))
    gotf = tuple(np.shape(full[0])) if status == 'ok' and isinstance(full, tuple) and len(full) == 2 else None
    if gotf != want:
        acc.case(case, nontrivial=nontriv, cell=cells, outcome=('shape-full_output', status, gotf))
        text = '%s with full_output=True: %s, value of shape %r, expected a (value, info) pair with a value of shape %r' % (
            head, status if status != 'ok' else 'returned', gotf, want)
        acc.violation('C03:Gradient:shape:full_output:x-%s:%s' % (fclass, 'size1' if n == 1 else 'size>1'), jc, text, rank)
        return text
    status, jac = call(lambda: nd.Jacobian(fun, method=method, order=order)(flat))
    if status != 'ok' or np.shape(jac) != (1, n):
        # the Jacobian's own failure is reported by the Jacobian part; nothing to compare with
        acc.case(case, nontrivial=False, outcome='no-jacobian-row')
        acc.count('grad-no-jacobian-row')
        return '%s: no Jacobian row to compare with (%s)' % (head, status)
    row = np.asarray(jac)[0]
    same = bits_equal(np.ravel(val), row)
    acc.case(case, nontrivial=nontriv, cell=cells, outcome=('grad', got, same))
    if not same:
        text = '%s = %r differs from Jacobian(f)(x.ravel())[0] = %r' % (head, np.asarray(val).tolist(), row.tolist())
        acc.violation('C03:Gradient:not-jacobian-row:%s:x-%s' % (method, fclass), jc, text, rank)
        return text
    return '%s: shape %r ok, equals the Jacobian row bit for bit' % (head, got)


# -- directionaldiff -----------------------------------------------------------------------------

class GradCache(object):
    """Gradient with full_output at (map, point, method, order): shared by all directions."""

    def __init__(self, orc):
        self.orc, self.d = orc, {}

    def get(self, method, order):
        import numdifftools as nd
        key = (method, order)
        if key not in self.d:
            fun = ridge.make_fun(self.orc.spec)
            flat = np.array(self.orc.x, dtype=float)
            self.d[key] = call(lambda: nd.Gradient(fun, method=method, order=order, full_output=True)(flat))
        return self.d[key]


def do_dd(acc, orc, gcache, vlabel, xform, vform, method, order):
    import numdifftools as nd
    spec, ptk = orc.spec, orc.ptk
    family, out, m, n, k, variant = spec
    fun = ridge.make_fun(spec)
    vkind, _, v = [t for t in v_list(n) if t[1] == vlabel][0]
    vclass = 'unit-v' if sum(t * t for t in v) == 1.0 else 'scaled-v'
    if xform == '2d':
        if n % 2 or n < 4 or method == 'multicomplex':
            return None                      # needs a (2, n/2) matrix with n/2 >= 2; Bicomplex matrices are not ravel-able
        flat_fun = fun
        fun = lambda X: flat_fun(np.ravel(X))          # noqa: E731  f of n*m variables
    x = make_x(orc.x, xform)
    vec = make_x(v, vform)
    u, r = orc.direction(vlabel, v)
    E = E_of(method)
    F = E / 100.0
    hmax0 = hmax_of(method, order, 0.0)
    unit = entry_terms(r, method, hmax0)
    exact = r.exact
    nontriv = unit is not None and E * unit < float(abs(exact)) / 2
    case = ('dd', spec, ptk, vlabel, xform, vform, method, order)
    jc = _jc('dd', spec, ptk, xform, method, order, v=vlabel, vform=vform, vec=v)
    rank = _rank(spec, order, len(vlabel))
    cells = ['dd/v=%s' % vkind, 'dd/method=%s/order=%d' % (method, order), 'dd/vform=%s' % vform,
             'dd/xform=%s' % xform, 'dd/family=%s' % family, 'dd/point=%s' % ptk]
    head = 'directionaldiff(f, x, v, method=%r, order=%d, full_output=True) with f = %s, x = %r (%s), v = %r (%s)' % (
        method, order, ridge.describe(spec), orc.x, xform, v, vform)

    status, res = call(lambda: nd.directionaldiff(fun, x, vec, method=method, order=order, full_output=True))
    if status != 'ok':
        acc.case(case, nontrivial=nontriv, cell=cells, outcome=status)
        acc.violation('C03:directionaldiff:%s:v-%s' % (status, vform), jc, '%s raised %s' % (head, res), rank)
        return '%s raised %s' % (head, res)
    dd, info = res
    if np.size(dd) != 1 or np.ndim(dd) != 0:
        acc.case(case, nontrivial=nontriv, cell=cells, outcome=('shape', np.shape(dd)))
        text = '%s has shape %r, expected a scalar' % (head, np.shape(dd))
        acc.violation('C03:directionaldiff:shape:v-%s' % vform, jc, text, rank)
        return text
    if unit is None:
        acc.case(case, nontrivial=False, cell=cells, outcome='not-class-A')
        acc.count('dd-not-class-A')
        return '%s: restriction is not class A for this method, no accuracy claim' % head
    ddv = float(np.real(dd))
    err = _err(dd, exact)
    ratio = err / unit if unit > 0 else (0.0 if err == 0 else float('inf'))
    acc.maxi('worst/dd-err-over-S/%s' % method, ratio if math.isfinite(ratio) else 1e300)
    if CALIBRATE:
        acc.maxi('E/dd/%s' % method, (ratio if math.isfinite(ratio) else 1e300,
                                      '%s value %r exact %s S=%.3g' % (head, ddv, mp.nstr(exact, 17), unit)))
    texts = []
    lg = round(math.log10(ratio + 1e-300)) if math.isfinite(ratio) else 999
    if not err <= E * unit and not CALIBRATE:
        kind = 'envelope' if math.isfinite(err) else 'nonfinite'
        text = '%s = %r, exact %s: error %.3g > E=%g x S=%.3g' % (head, ddv, mp.nstr(exact, 17), err, E, unit)
        acc.violation('C03:directionaldiff:%s:%s:%s' % (kind, method, vclass), jc, text, rank)
        texts.append(text)

    # against Gradient . v/|v|: claimed when every partial that enters the product is class A as well
    gstatus, gres = gcache.get(method, order)
    units = []
    for j in range(n):
        if u[j] == 0:
            units.append(0.0)
            continue
        t = entry_terms(orc.R[(0, 0)][j], method, hmax_of(method, order, orc.x[j]))
        units.append(t)
    outcome = ('dd', method, lg)
    if gstatus == 'ok' and all(t is not None for t in units):
        g, ginfo = gres
        g = np.ravel(g)
        gest = np.ravel(np.asarray(ginfo.error_estimate, dtype=float))
        if g.shape == (n,) and gest.shape == (n,):
            absu = [float(abs(t)) for t in u]
            gdot = mp.fsum(mp.mpf(float(g[j])) * u[j] for j in range(n)) if np.all(np.isfinite(g)) else mp.nan
            est = float(np.ravel(np.asarray(info.error_estimate, dtype=float))[0]) + sum(
                absu[j] * gest[j] for j in range(n))
            floor = F * (unit + sum(absu[j] * units[j] for j in range(n)))
            diff = float(abs(mp.mpf(ddv) - gdot)) if math.isfinite(ddv) else float('nan')
            allow = K1 * est + floor
            rr = diff / allow if allow > 0 else float('inf')
            acc.maxi('worst/dd-vs-gradient-over-allowance/%s' % method, rr if math.isfinite(rr) else 1e300)
            if CALIBRATE:
                kk = (diff - floor) / est if est > 0 else (0.0 if diff <= floor else float('inf'))
                acc.maxi('K1/dd/%s' % method, (kk if math.isfinite(kk) else 1e300, head))
                acc.maxi('F/dd/%s' % method, diff / (floor / F) if floor > 0 else 0.0)
            if est > 0:
                acc.maxi('worst/dd-vs-gradient-over-estimates/%s' % method, diff / est)
            acc.count('dd-vs-gradient-judged')
            outcome = ('dd', method, lg, round(math.log10(rr + 1e-300)) if math.isfinite(rr) else 999)
            if not diff <= allow and not CALIBRATE:
                text = ('%s = %r but Gradient(f)(x) . v/|v| = %s: difference %.3g > K1=%g x (sum of error estimates '
                        '%.3g) + floor %.3g' % (head, ddv, mp.nstr(gdot, 17), diff, K1, est, floor))
                acc.violation('C03:directionaldiff:vs-gradient:%s:%s' % (method, vclass), jc, text, rank)
                texts.append(text)
    else:
        acc.count('dd-vs-gradient-not-claimed')
    acc.case(case, nontrivial=nontriv, cell=cells, outcome=outcome)
    if texts:
        return '\n'.join(texts)
    return '%s = %r, exact %s, error/S = %.3g' % (head, ddv, mp.nstr(exact, 17), ratio)


# ---------------------------------------------------------------------------------------------

def run_item(acc, spec, ptk, tier):
    family, out, m, n, k, variant = spec
    orc = PointOracle(spec, ptk)
    for form in jac_forms(spec):
        for method in METHODS:
            for order in ORDERS:
                do_jac(acc, orc, form, method, order)
    if family == 'affine':
        for ratio in RATIOS:
            for method in METHODS:
                for order in ORDERS:
                    do_jac(acc, orc, 'array', method, order, ratio=ratio)
    if out != 'scalar':
        return
    for form in grad_forms(n):
        for method in METHODS:
            for order in ORDERS:
                do_grad(acc, orc, form, method, order)
    gcache = GradCache(orc)
    for (vkind, vlabel, v) in v_list(n):
        for (xform, vform) in dd_form_pairs(tier):
            for method in METHODS:
                for order in ORDERS:
                    do_dd(acc, orc, gcache, vlabel, xform, vform, method, order)


# -- affine selection maps that return VIEWS of their argument ---------------------------------------
# f(x) = x, x[::-1], x[1:], x[::2], x.reshape(2, n/2), x.reshape(2, n/2).T: affine maps whose Jacobian entries are
# exactly 0 / 1.  The result object aliases the array the library handed to f; a library that keeps working on
# that array after the call corrupts the result.

SELECT_MAPS = ('identity', 'reversed', 'tail', 'every-second', 'reshape', 'reshape-T')


def select_map(name, n):
    """(python function, exact Jacobian as an integer array of the documented shape) or None"""
    idx = np.arange(n)
    if name == 'identity':
        f, sel = (lambda x: x), idx
    elif name == 'reversed':
        f, sel = (lambda x: x[::-1]), idx[::-1]
    elif name == 'tail':
        if n < 2:
            return None
        f, sel = (lambda x: x[1:]), idx[1:]
    elif name == 'every-second':
        if n < 3:
            return None
        f, sel = (lambda x: x[::2]), idx[::2]
    elif name in ('reshape', 'reshape-T'):
        if n % 2 or n < 4:
            return None
        if name == 'reshape':
            f, sel = (lambda x: x.reshape(2, n // 2)), idx.reshape(2, n // 2)
        else:
            f, sel = (lambda x: x.reshape(2, n // 2).T), idx.reshape(2, n // 2).T
    else:
        raise KeyError(name)
    if sel.ndim == 1:
        J = (sel[:, None] == idx[None, :]).astype(int)                    # (m, n)
    else:
        J = (sel[:, None, :] == idx[None, :, None]).astype(int)           # (m, n, k): d f[i, l] / d x_j
    return f, J, sel


def do_select(acc, name, n, ptk, method, order):
    import numdifftools as nd
    sm_ = select_map(name, n)
    if sm_ is None:
        return None
    f, J, sel = sm_
    xs = [float(v) for v in ridge.point(ptk, n)]
    x = np.array(xs)
    case = ('select', name, n, ptk, method, order)
    jc = dict(part='select', map=name, n=n, point=ptk, method=method, order=order)
    cells = ['select/map=%s' % name, 'select/method=%s/order=%d' % (method, order)]
    head = 'Jacobian(f, method=%r, order=%d)(x) with f(x) = %s of x (a view of its argument), x = %r' % (
        method, order, name, xs)
    status, val = call(lambda: nd.Jacobian(f, method=method, order=order)(x))
    if method == 'multicomplex' and name != 'identity' and status != 'ok':
        # the multicomplex method hands f a Bicomplex object, which is not indexable: outside the statement
        acc.count('select:multicomplex-object-not-indexable')
        return None
    if status != 'ok':
        acc.case(case, nontrivial=True, cell=cells, outcome=status)
        acc.violation('C03:Jacobian:%s:selection-map' % status, jc, '%s raised %s' % (head, val), n)
        return '%s raised %s' % (head, val)
    val = np.asarray(val)
    want = J.shape if not (J.ndim == 2 and J.shape[0] == 1 and False) else J.shape
    if val.shape != want:
        acc.case(case, nontrivial=True, cell=cells, outcome=('shape', val.shape))
        text = '%s has shape %r, expected %r' % (head, val.shape, want)
        acc.violation('C03:Jacobian:shape:selection-map', jc, text, n)
        return text
    scale = 1.0 + np.abs(x[sel])                                         # |A||x| + |A_ij| of the row
    allow = AFFINE_UNITS * EPS * (scale[:, None] if J.ndim == 2 else scale[:, None, :])
    err = np.abs(val - J)
    bad = ~(err <= allow)
    acc.case(case, nontrivial=True, cell=cells, outcome=('select', bool(bad.any())))
    if bad.any():
        i = tuple(int(v) for v in np.argwhere(bad)[0])
        text = ('%s: entry %r = %r, exact %d (error %.3g > 1e4 eps x (|x|+1)); %d of %d entries fail'
                % (head, i, val[i], J[i], float(err[i]), int(bad.sum()), bad.size))
        acc.violation('C03:Jacobian:affine-inexact:%s:selection-map' % method, jc, text, n)
        return text
    return '%s: exact' % head


# -- arrays returned by f stay f's property ----------------------------------------------------------
# f returns a read-only array, or (memoised f) the array it stored for that point: the library may read it, not write
# into it.  Oracle: the closed-form Jacobian / gradient for every kind of result array, and the store unchanged.

def work_outputs(chunk):
    import numdifftools as nd
    acc = fw.Acc()
    for cls, method, order in chunk:
        A = np.array([[1.5, -2.0, 0.5], [0.25, 3.0, -1.0]])
        b = np.array([0.5, -1.5])
        if cls == 'Jacobian':
            def base(x):
                return np.dot(A, x) + b + 0.1 * x[:2] * x[1:]
        else:
            def base(x):
                return np.array(np.dot(A[0], x) + 0.1 * x[0] * x[2])
        x = np.array([0.7, -1.3, 2.1])
        store = {}

        def readonly(t):
            r = np.array(base(t))
            r.setflags(write=False)
            return r

        def memo(t):
            key = np.asarray(t).tobytes()
            if key not in store:
                store[key] = (np.array(t, copy=True), np.array(base(t)))
            return store[key][1]
        if cls == 'Jacobian':
            want = A + 0.1 * np.array([[x[1], x[0], 0.0], [0.0, x[2], x[1]]])
        else:
            want = A[0] + 0.1 * np.array([x[2], 0.0, x[0]])
        allow = 1e-6 * (1.0 + float(np.max(np.abs(want))))
        for name, g in (('fresh', base), ('readonly', readonly), ('memo', memo), ('memo-again', memo)):
            fw.fresh_library_state()
            status, val = call(lambda: getattr(nd, cls)(g, method=method, order=order)(x))
            prob = None
            if status != 'ok':
                prob = '%s' % (val,)
            else:
                val = np.asarray(val)
                err = float(np.max(np.abs(val - want))) if val.shape == want.shape else float('inf')
                if not err <= allow:
                    prob = 'max error %.3g > %.3g (got %r, closed form %r)' % (err, allow, val.tolist(), want.tolist())
            if prob is None and name == 'memo-again':
                damaged = [k for k, (t, r) in store.items() if not np.array_equal(np.asarray(r), np.asarray(base(t)))]
                if damaged:
                    prob = '%d of the %d arrays stored by the memoised f were modified by the library' % (len(damaged), len(store))
            acc.case(('outputs', cls, method, order, name), nontrivial=True, cell='outputs/%s' % name.split('-')[0], outcome=prob is None)
            if prob:
                acc.violation('C03:%s:result-array-of-f-%s:%s' % (cls, name.split('-')[0], method),
                              dict(part='outputs', cls=cls, method=method, order=order),
                              '%s(f, method=%r, order=%d)(%r), f returning a %s array: %s' % (cls, method, order, x.tolist(), name, prob), 3)
    fw.fresh_library_state()
    return acc


# -- aliased coarse steps ------------------------------------------------------------------------------
# sin(2 pi k t) with integer k >= 8: the five largest default steps 2, 1, 1/2, 1/4, 1/8 are multiples of the half period,
# so the coarse rows of the table agree on the wrong value 0 with a zero error estimate; the library's outlier test
# (rows more than a factor 10 away from the median) discards them.  That must work per entry - whatever the other
# entries of the Jacobian are (an entry that is exactly zero, an ordinary one).

def work_aliased(chunk):
    import numdifftools as nd
    acc = fw.Acc()
    for k, method, order, companion in chunk:
        w = 2.0 * math.pi * k
        x = np.array([0.3, -0.4, 0.7])

        def f(t):
            second = t[1] * t[1] if companion == 'zero-entry' else t[0] * t[1] + t[2]
            return np.array([np.sin(w * t[0]) - 0.2 * t[1] * t[2], second, 0.5 * t[2] + t[0] * 0.0 + t[1]])

        def g(t):
            return np.sin(w * t[0]) + (t[2] * t[2] if companion == 'zero-entry' else t[1] * t[2] + t[0] * t[1])
        J = np.array([[w * math.cos(w * x[0]), -0.2 * x[2], -0.2 * x[1]],
                      [0.0, 2 * x[1], 0.0] if companion == 'zero-entry' else [x[1], x[0], 1.0],
                      [0.0, 1.0, 0.5]])
        G = np.array([w * math.cos(w * x[0]), 0.0, 2 * x[2]] if companion == 'zero-entry' else
                     [w * math.cos(w * x[0]) + x[1], x[2] + x[0], x[1]])
        for cls, fun, want in (('Jacobian', f, J), ('Gradient', g, G)):
            status, val = call(lambda: getattr(nd, cls)(fun, method=method, order=order)(x))
            case = ('aliased', k, method, order, companion, cls)
            jc = dict(part='aliased', k=k, method=method, order=order, companion=companion, cls=cls)
            if status != 'ok':
                acc.case(case, nontrivial=True, cell='aliased/%s' % companion, outcome=status)
                acc.violation('C03:%s:%s:aliased-periodic' % (cls, status), jc, str(val), k)
                continue
            err = float(np.max(np.abs(np.asarray(val) - want)))
            ok = err <= 1e-6 * w
            acc.case(case, nontrivial=True, cell='aliased/%s' % companion, outcome=ok)
            acc.maxi('aliased/worst error over 1e-6 x frequency', err / (1e-6 * w))
            if not ok:
                acc.violation('C03:%s:envelope:%s:aliased-periodic-entry-next-to-%s' % (cls, method, companion), jc,
                              '%s(f, method=%r, order=%d)(%r), first component sin(2 pi %d x0) + ...: max error %.3g > %.3g; '
                              'got %r, exact %r' % (cls, method, order, x.tolist(), k, err, 1e-6 * w,
                                                    np.asarray(val).tolist(), want.tolist()), k)
    return acc


# -- an affine map plus a narrow feature away from x ---------------------------------------------------------
# f(x) = A x + c exp(-((x_j - x0_j - d) / w)^2), d = +-2^-k, w = 2^-2k (at least 2^-8): value and every derivative of the
# feature at x0 are below exp(-256), so the Jacobian at x0 is A.  Exactly one step of the default sequence (the
# coordinates are at most 1 in magnitude, so the steps are 2, 1, 1/2, ... exactly) samples the feature: the rows built from
# it are far off and carry large error estimates, every other row is exact and carries the smallest estimate.  Whatever
# row is selected among those with the smallest estimate, the result is A to rounding.

FAR_A = np.array([[2.0, -3.0, 0.5], [1.0, 4.0, -2.0]])
FAR_C = np.array([1.0, -1.0])
FAR_X0 = np.array([0.5, -0.25, 0.75])


def work_far_feature(chunk):
    import numdifftools as nd
    acc = fw.Acc()
    for method, order, k, j in chunk:
        d = 2.0 ** -k * (-1.0 if method == 'backward' else 1.0)
        w = 2.0 ** -max(2 * k, 8)

        def f(t):
            return np.dot(FAR_A, t) + FAR_C * np.exp(-((t[j] - FAR_X0[j] - d) / w) ** 2)

        def g(t):
            return f(t)[0]
        for cls, fun, want in (('Jacobian', f, FAR_A), ('Gradient', g, FAR_A[0])):
            status, val = call(lambda: getattr(nd, cls)(fun, method=method, order=order)(FAR_X0))
            case = ('far-feature', method, order, k, j, cls)
            jc = dict(part='far-feature', method=method, order=order, k=k, j=j, cls=cls)
            if status != 'ok':
                acc.case(case, nontrivial=True, cell='far-feature/%s' % method, outcome=status)
                acc.violation('C03:%s:%s:far-feature' % (cls, status), jc, str(val), k)
                continue
            err = float(np.max(np.abs(np.asarray(val) - want))) if np.shape(val) == want.shape else float('inf')
            ok = err <= 1e-6
            acc.case(case, nontrivial=True, cell='far-feature/%s' % method, outcome=ok)
            acc.maxi('far-feature/worst error over 1e-6', err / 1e-6)
            if not ok:
                acc.violation('C03:%s:envelope:%s:affine-plus-far-feature' % (cls, method), jc,
                              '%s(f, method=%r, order=%d)(%r), f = A x + c exp(-((x_%d - x0_%d - (%g)) / %g)^2) (only the step '
                              '%g of the default sequence samples the feature): max error %.3g > 1e-6; got %r, exact %r'
                              % (cls, method, order, FAR_X0.tolist(), j, j, d, w, abs(d), err, np.asarray(val).tolist(),
                                 want.tolist()), k)
    return acc


# -- forms of the user callable -----------------------------------------------------------------------------
# the function may be any callable: a functools.partial, a bound method, an object with __call__ whose own attributes
# happen to be named like attributes of the derivative objects (fun, n, order, method, step, full_output, ...), another
# derivative object (Jacobian of a Gradient is the Hessian).  Closed-form Jacobians of an affine / a quadratic map.

CALL_A = np.array([[1.0, -2.0, 3.0], [0.5, 4.0, -1.5]])
CALL_Q = np.array([[2.0, 0.5, -1.0], [0.5, 3.0, 0.25], [-1.0, 0.25, 1.5]])
CALL_X = np.array([0.3, -0.7, 1.1])
CALLABLE_FORMS = ['partial', 'bound-method', 'object-with-library-named-attributes', 'gradient-object']


class _Scaled(object):
    """callable object: 3 * g, keeping g and some settings in attributes of its own"""

    def __init__(self, g):
        self.fun = g                    # names chosen like the library's own instance attributes
        self.n, self.order, self.method, self.step = 7, 9, 'backward', 1e3
        self.full_output, self.richardson_terms, self.fd_rule, self._step, self._derivative = True, 0, None, None, None

    def __call__(self, x):
        return 3.0 * self.fun(x)


class _Model(object):
    def __init__(self, A):
        self.A = A

    def affine(self, x):
        return np.dot(self.A, x)


def _callable_of(form):
    """(callable, exact Jacobian at CALL_X, description)"""
    import functools
    import numdifftools as nd
    if form == 'partial':
        def g(scale, x):
            return scale * np.dot(CALL_A, x)
        return functools.partial(g, 2.0), 2.0 * CALL_A, 'functools.partial(lambda scale, x: scale * A x, 2.0)'
    if form == 'bound-method':
        return _Model(CALL_A).affine, CALL_A, 'bound method of an object holding A'
    if form == 'object-with-library-named-attributes':
        return _Scaled(lambda x: np.dot(CALL_A, x)), 3.0 * CALL_A, 'callable object 3 * self.fun(x) with attributes fun, n, order, method, step, ...'
    if form == 'gradient-object':
        return nd.Gradient(lambda x: 0.5 * np.dot(x, np.dot(CALL_Q, x))), CALL_Q, 'nd.Gradient of x.Qx/2 (its Jacobian is Q)'
    raise KeyError(form)


def work_callables(chunk):
    import numdifftools as nd
    acc = fw.Acc()
    for form, method, order in chunk:
        fun, want, text = _callable_of(form)
        tol = 1e-8 if form != 'gradient-object' else (1e-6 if method in ('central', 'complex', 'multicomplex') else 1e-3)
        entries = [('Jacobian', fun, want)]
        if form != 'gradient-object':
            entries.append(('Gradient', (lambda f_: (lambda x: f_(x)[0]))(fun) if form != 'object-with-library-named-attributes' else None, want[0]))
        for cls, f_, w_ in entries:
            if f_ is None:
                # the scalar companion of the callable object: the same class, returning its first component
                obj = _Scaled(lambda x: np.dot(CALL_A, x)[0])
                f_, w_ = obj, 3.0 * CALL_A[0]
            if form == 'gradient-object' and method == 'multicomplex':
                continue          # a real-step object cannot be fed bicomplex arguments
            status, val = call(lambda: getattr(nd, cls)(f_, method=method, order=order)(CALL_X))
            case = ('callable', form, method, order, cls)
            jc = dict(part='callable', form=form, method=method, order=order, cls=cls)
            if status != 'ok':
                acc.case(case, nontrivial=True, cell='callable/%s' % form, outcome=status)
                acc.violation('C03:%s:%s:callable-%s' % (cls, status, form), jc, '%s of %s: %s' % (cls, text, val), 1)
                continue
            val = np.asarray(val)
            err = float(np.max(np.abs(val - w_))) if val.shape == np.shape(w_) else float('inf')
            ok = err <= tol * (1.0 + float(np.max(np.abs(w_))))
            acc.case(case, nontrivial=True, cell='callable/%s' % form, outcome=ok)
            if not ok:
                acc.violation('C03:%s:%s:callable-%s' % (cls, 'shape' if val.shape != np.shape(w_) else 'envelope', form), jc,
                              '%s(f, method=%r, order=%d)(%r) with f = %s: got %r, exact %r' % (cls, method, order, CALL_X.tolist(), text,
                                                                                              val.tolist(), np.asarray(w_).tolist()), 1)
    return acc


# -- options given explicitly as None --------------------------------------------------------------------------
# every step option documents None as "the default": passing None explicitly is the same request as leaving the option
# out (a smooth nonlinear map; closed-form Jacobian)

NONE_OPTIONS = [dict(num_steps=None), dict(step_ratio=None), dict(step_nom=None), dict(step=None),
                dict(num_steps=None, step_ratio=None, step_nom=None)]


def work_none_options(chunk):
    import numdifftools as nd
    acc = fw.Acc()
    x = np.array([0.4, -0.9])

    def f(t):
        return np.array([np.exp(0.5 * t[0]) * np.sin(t[1]), t[0] * t[0] * t[1] + np.cos(t[1])])
    J = np.array([[0.5 * math.exp(0.2) * math.sin(-0.9), math.exp(0.2) * math.cos(-0.9)],
                  [2 * 0.4 * -0.9, 0.16 - math.sin(-0.9)]])
    for oi, method, order in chunk:
        opts = NONE_OPTIONS[oi]
        for cls, fun, want in (('Jacobian', f, J), ('Gradient', lambda t: f(t)[0], J[0])):
            status, val = call(lambda: getattr(nd, cls)(fun, method=method, order=order, **opts)(x))
            case = ('none-options', oi, method, order, cls)
            jc = dict(part='none-options', opts=oi, method=method, order=order, cls=cls)
            if status != 'ok':
                acc.case(case, nontrivial=True, cell='none-options/%d' % oi, outcome=status)
                acc.violation('C03:%s:%s:options-given-as-None' % (cls, status), jc, '%s(f, method=%r, order=%d, %r): %s'
                              % (cls, method, order, opts, val), 1)
                continue
            err = float(np.max(np.abs(np.asarray(val) - want))) if np.shape(val) == np.shape(want) else float('inf')
            ok = err <= 1e-6
            acc.case(case, nontrivial=True, cell='none-options/%d' % oi, outcome=ok)
            acc.maxi('none-options/worst error over 1e-6', err / 1e-6)
            if not ok:
                acc.violation('C03:%s:envelope:%s:options-given-as-None' % (cls, method), jc,
                              '%s(f, method=%r, order=%d, %r)(%r): max error %.3g > 1e-6; got %r, exact %r'
                              % (cls, method, order, opts, x.tolist(), err, np.asarray(val).tolist(), np.asarray(want).tolist()), 1)
    return acc


# -- functions with a limited domain ---------------------------------------------------------------------
# f is differentiable at x but only defined on part of R^n (log, sqrt): the largest default steps leave the domain
# in one direction, so SOME rows of SOME entries are NaN.  Those entries must still be resolved from their valid rows,
# next to entries whose rows are all valid.

def work_partial_domain(chunk):
    import numdifftools as nd
    acc = fw.Acc()
    for x0, method, order in chunk:
        x = np.array([x0, 1.5])

        def f(t):
            return np.array([t[1] * np.log(t[0]), t[0] * t[1], t[0] * t[0] + np.sin(t[1])])

        def g(t):
            return t[1] * np.log(t[0]) + np.sqrt(t[0]) * t[1] * t[1]
        J = np.array([[x[1] / x[0], math.log(x[0])], [x[1], x[0]], [2 * x[0], math.cos(x[1])]])
        G = np.array([x[1] / x[0] + 0.5 / math.sqrt(x[0]) * x[1] ** 2, math.log(x[0]) + 2 * math.sqrt(x[0]) * x[1]])
        for cls, fun, want in (('Jacobian', f, J), ('Gradient', g, G)):
            status, val = call(lambda: getattr(nd, cls)(fun, method=method, order=order)(x))
            case = ('partial-domain', x0, method, order, cls)
            jc = dict(part='partial-domain', x0=x0, method=method, order=order, cls=cls)
            allow = (1e-6 if method == 'central' else 1e-4) * (1.0 + np.abs(want))
            prob = None
            if status != 'ok':
                prob = str(val)
            else:
                val = np.asarray(val)
                if val.shape != want.shape or not np.all(np.abs(val - want) <= allow):
                    prob = 'got %r, closed form %r' % (val.tolist(), want.tolist())
            acc.case(case, nontrivial=True, cell='partial-domain/%s' % method, outcome=prob is None)
            if prob:
                acc.violation('C03:%s:envelope:%s:entry-with-some-invalid-rows' % (cls, method), jc,
                              '%s(f, method=%r, order=%d)(%r), f involving log(x0): %s' % (cls, method, order, x.tolist(), prob), 2)
    return acc


def work_select(chunk, tier='quick'):
    acc = fw.Acc()
    nmax = 6 if tier == 'quick' else 8
    for name, ptk in chunk:
        for n in range(1, nmax + 1):
            for method in METHODS:
                for order in ORDERS:
                    do_select(acc, name, n, ptk, method, order)
    return acc


def work(chunk, tier='quick'):
    acc = fw.Acc()
    for spec, ptk in chunk:
        run_item(acc, tuple(spec), ptk, tier)
    return acc


def required_cells(tier):
    b = bounds(tier)
    req = ['jac/shape/m=1,n=%d' % n for n in range(2, b['N'] + 1)]
    req += ['jac/shape/m=%d,n=1' % m for m in range(2, b['M'] + 1)]
    req += ['jac/method=%s/order=%d' % (me, o) for me in METHODS for o in ORDERS]
    req += ['jac/form=%s' % f for f in JAC_FORMS]
    req += ['jac/matrix/k=%d' % k for k in range(1, b['K'] + 1)]
    req += ['jac/family=affine', 'jac/family=ridge', 'jac/out=scalar', 'jac/out=vector', 'jac/out=matrix']
    req += ['jac/%s/%s' % (o, s) for o in ('vector', 'matrix') for s in ('m=1,n=1', 'm=1,n>=2', 'm>=2,n=1', 'm>=2,n>=2')]
    req += ['jac/m=1,n>=2/%s' % me for me in METHODS] + ['jac/m=1,n>=2/form=%s' % f for f in ('list', 'array', 'column')]
    req += ['jac/point=%s' % p for p in ridge.POINT_KINDS]
    req += ['ridge/g=%s' % g for g in ridge.FUNS] + ['ridge/h=%s' % g for g in ridge.FUNS]
    req += ['grad/form=%s' % f for f in GRAD_FORMS] + ['grad/size1', 'grad/size>1']
    req += ['grad/method=%s/order=%d' % (me, o) for me in METHODS for o in ORDERS]
    req += ['outputs/readonly', 'outputs/memo'] + ['far-feature/%s' % me for me in ('central', 'forward', 'backward')] + \
        ['callable/%s' % f for f in CALLABLE_FORMS] + ['none-options/%d' % i for i in range(len(NONE_OPTIONS))]
    req += ['select/map=%s' % mname for mname in SELECT_MAPS] + ['jac/step_ratio=%r' % r for r in RATIOS]
    req += ['dd/v=%s' % v for v in V_KINDS] + ['dd/vform=%s' % f for f in V_FORMS]
    req += ['dd/method=%s/order=%d' % (me, o) for me in METHODS for o in ORDERS]
    return req


def run(ctx):
    sp = specs(ctx)
    # heavy items (large m*n*k) first so that the pool drains evenly
    items = [(s, p) for s in sp for p in ridge.POINT_KINDS]
    items.sort(key=lambda it: -(it[0][2] * it[0][3] * it[0][4] + (10 * it[0][3] if it[0][1] == 'scalar' else 0)))
    acc = ctx.pmap(work, items, chunk=1, tier=ctx.tier)
    acc.merge(ctx.pmap(work_aliased, [(k, me, o, c) for k in (8, 16) for me in ('central', 'forward', 'backward') for o in ORDERS
                                      for c in ('zero-entry', 'ordinary')], chunk=3))
    acc.merge(ctx.pmap(work_far_feature, [(me, o, k, j) for me in ('central', 'forward', 'backward') for o in ORDERS
                                          for k in range(1, 13) for j in range(3)], chunk=6))
    acc.merge(ctx.pmap(work_callables, [(f, me, o) for f in CALLABLE_FORMS for me in METHODS for o in ORDERS], chunk=3))
    acc.merge(ctx.pmap(work_none_options, [(oi, me, o) for oi in range(len(NONE_OPTIONS)) for me in METHODS for o in ORDERS], chunk=5))
    acc.merge(ctx.pmap(work_partial_domain, [(x0, me, o) for x0 in (0.05, 0.3) for me in ('central', 'backward') for o in ORDERS], chunk=2))
    acc.merge(ctx.pmap(work_outputs, [(c, m, o) for c in ('Jacobian', 'Gradient') for m in METHODS for o in ORDERS], chunk=2))
    acc.merge(ctx.pmap(work_select, [(mname, p) for mname in SELECT_MAPS for p in ridge.POINT_KINDS], chunk=1, tier=ctx.tier))
    b = bounds(ctx.tier)
    for s in [('affine', 'vector', 1, 3, 1, 0), ('ridge', 'vector', 1, 2, 1, ctx.rotate(range(N_VARIANTS), 3)[0]),
              ('ridge', 'vector', 3, 1, 1, 0), ('ridge', 'matrix', 2, 3, 2, 0), ('ridge', 'scalar', 1, 4, 1, 1)]:
        orc = PointOracle(s, 'ramp')
        ex = {}
        for (i, l), e in sorted(orc.ent.items()):
            for j in range(s[3]):
                ex['[%d,%d,%d]' % (i, j, l)] = (float(e[1][j]) if s[0] == 'affine' else
                                                 float(orc.R[(i, l)][j].exact))
        acc.sample(dict(call='Jacobian(f)(x)', f=ridge.describe(s), x=orc.x, forms=jac_forms(s),
                        expected_shape=list(expected_jac_shape(s, 'array')), exact_entries_i_j_l=ex,
                        configs='5 methods x order in (2, 4)'))
    s = ('ridge', 'scalar', 1, 3, 1, 0)
    orc = PointOracle(s, 'mixed')
    for lab in ('alt', 'big-e1'):
        v = [t for t in v_list(3) if t[1] == lab][0][2]
        u, r = orc.direction(lab, v)
        acc.sample(dict(call='directionaldiff(f, x, v)', f=ridge.describe(s), x=orc.x, v=v,
                        exact=float(r.exact), S=r.S, R_an=r.R_an))
    if CALIBRATE:
        import json
        print(json.dumps({k: fw.jsonable(v) for k, v in sorted(acc.extra.items())}, indent=0))
        print('violations (shape / exception / affine / bit-identity only): %r' % sorted(acc.viol))
        return 0
    nspec = len(sp)
    rule = (
        '%d maps R^n -> R^m / R^(m x k) (n <= %d, m <= %d, k <= %d): affine A x + b with non-symmetric '
        'integer-plus-half coefficients, and ridge maps f[i,l] = g(a.x) h(b.x), g, h in {exp, sin, cosh, arctan, '
        'square, 1/(2+t^2)} (%d coefficient/function variants for scalar and vector maps, %d for matrix-valued), '
        'returned as 0-d value, length-m vector or (m, k) matrix; + the affine selection maps x, x[::-1], x[1:], x[::2], '
        'x.reshape(2, n/2)(.T) that return VIEWS of their argument (exact 0/1 Jacobians, n <= 6 (8)); x 4 point families (0.3+0.1 i; all 25; all 1e-3; '
        'mixed sign) x input forms (list, 1-d array, (n,1) column, float and 0-d array for n = 1) x 5 methods x '
        'order in (2, 4) (affine maps also with step_ratio 4 and 1.6).  Oracle: shape exactly (m, n) / (m, n, k) ((m, n, 1) for a column x); every class-A entry '
        '(analyticity radius of t -> f_i(x + t e_j) >= c_A x largest documented step) within E(method, 1) x S_1 of the '
        'closed-form partial derivative (60-digit mpmath, cross-checked against jets); affine maps exact to '
        '1e4 eps (|A||x| + |b| + |A_ij|) entrywise, because a difference quotient of an affine map only carries the '
        'rounding of f, eps (|A||x| + |b|) / h with h = O(step_nom), amplified by the extrapolation weights.  '
        'Gradient (scalar maps; additionally row, column, (2, n/2) and [[x]] inputs): shape of the flattened x, 0-d for '
        'one element, and bit-identical to Jacobian(f)(x.ravel())[0].  directionaldiff(full_output=True) for v in '
        '{e_i, ones, alternating, 1e-3 ones, 1e3 e_1} given as list / array / column: within E x S_1 of the exact '
        'directional derivative, and within K1=100 x (its error estimate + sum_j |v_j|/|v| x gradient estimates) + '
        '(E/100) x (sum of the scales) of Gradient . v/|v|.  Any exception is a violation.  Non-trivial = at least '
        'one judged entry with E x S < |exact|/2 (affine: allowance < |A_ij|/2).  Entries whose restriction is not '
        'resolved or has S = 0 (identically zero to first order) carry no accuracy claim and are counted.'
        % (nspec, b['N'], b['M'], b['K'], len(ctx.rotate(range(N_VARIANTS), 3)), len(ctx.rotate(range(3), 1))))
    return fw.finish(ctx, acc, LEVEL, rule, exhaustive=True, required_cells=required_cells(ctx.tier),
                     assumptions=['envelope constants E(method, 1) are the calibrated numbers of Derivative frozen in '
                                  'envelopes.json (fallback 1e-9 / 1e-6 while that file is absent)',
                                  'the analyticity radius is a conservative (majorant-based) lower bound; entries that '
                                  'are not class A are only checked for shape and absence of exceptions',
                                  'maps, points, input forms and directions outside the stated families are not covered',
                                  'quick tier: a seed-rotated slice of 3 of the 12 ridge variants (1 of 3 for '
                                  'matrix-valued maps) and 3 of the 6 (x form, v form) pairs'])


def replay(case):
    if case.get('part') == 'partial-domain':
        a = work_partial_domain([(case['x0'], case['method'], int(case['order']))])
        bad = [r['detail'] for k, (n, recs) in a.viol.items() for r in recs]
        return not bad, '%r -> %s' % (case, bad or 'resolved')
    if case.get('part') == 'far-feature':
        a = work_far_feature([(case['method'], int(case['order']), int(case['k']), int(case['j']))])
        bad = [r['detail'] for k, (n, recs) in a.viol.items() for r in recs if r['case'].get('cls') == case.get('cls')]
        return not bad, '%r -> %s' % (case, bad or 'exact')
    if case.get('part') == 'callable':
        a = work_callables([(case['form'], case['method'], int(case['order']))])
        bad = [r['detail'] for k, (n, recs) in a.viol.items() for r in recs if r['case'].get('cls') == case.get('cls')]
        return not bad, '%r -> %s' % (case, bad or 'exact')
    if case.get('part') == 'none-options':
        a = work_none_options([(case['opts'], case['method'], int(case['order']))])
        bad = [r['detail'] for k, (n, recs) in a.viol.items() for r in recs if r['case'].get('cls') == case.get('cls')]
        return not bad, '%r -> %s' % (case, bad or 'within 1e-6')
    if case.get('part') == 'aliased':
        a = work_aliased([(case['k'], case['method'], int(case['order']), case['companion'])])
        bad = [r['detail'] for k, (n, recs) in a.viol.items() for r in recs]
        return not bad, '%r -> %s' % (case, bad or 'resolved')
    if case.get('part') == 'outputs':
        a = work_outputs([(case['cls'], case['method'], int(case['order']))])
        bad = [r['detail'] for k, (n, recs) in a.viol.items() for r in recs]
        return not bad, '%r -> %s' % (case, bad or 'identical for every kind of result array')
    if case.get('part') == 'select':
        acc = fw.Acc()
        text = do_select(acc, case['map'], case['n'], case['point'], case['method'], int(case['order']))
        return not acc.viol, text
    spec = tuple(case['spec'])
    ptk, method, order = case['point'], case['method'], int(case['order'])
    acc = fw.Acc()
    orc = PointOracle(spec, ptk)
    if case['part'] == 'jac':
        text = do_jac(acc, orc, case['form'], method, order, ratio=case.get('step_ratio'))
    elif case['part'] == 'grad':
        text = do_grad(acc, orc, case['form'], method, order)
    else:
        text = do_dd(acc, orc, GradCache(orc), case['v'], case['form'], case['vform'], method, order)
    if acc.viol:
        text = text + '\nkeys: ' + ', '.join(sorted(acc.viol))
    return not acc.viol, text
