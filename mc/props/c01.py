"""C01 - Derivative equals the exact n-th derivative within the accuracy envelope (DESIGN 5/C01).
C02 shares this execution (mc/props/c02.py imports run_spec).

E1: expression grammar (simplest first) x point pool x all (method, n, order) x generators.
Oracle: jets + scale (mc/oracle), envelope constants frozen in /verif/envelopes.json.
"""
import cmath
import math
import os
import warnings

import numpy as np

from mc import framework as fw
from mc import programs as P
from mc.oracle import jets
from mc.props import c01_common as cm

_QUICK_GRAMMAR = set(P.depth1() + P.STATIONARY)
LEVEL = 'exploration'
CALIBRATE = bool(os.environ.get('VERIF_CALIBRATE'))
PHIS = [math.pi / 2, 0.7]
PQ_BASE = [('u', 'sin', P.X), ('u', 'exp', ('s', 0.5, P.X)), ('p', P.X, 3), ('u', 'arctan', P.X),
           ('u', 'cosh', P.X), ('u', 'log1p', ('p', P.X, 2)), ('p', ('u', 'cos', P.X), 2), ('u', 'tanh', ('s', 2, P.X))]


def specs(ctx):
    out = [('real', p) for p in P.programs(ctx.tier)]
    d1 = P.depth1()
    pq = [('pq', p, q) for p in PQ_BASE for q in PQ_BASE if p != q]
    rot = [('rot', phi, p) for phi in PHIS for p in d1]
    if ctx.quick:
        pq = pq[ctx.seed % 7::7]
        rot = rot[ctx.seed % 9::9]
    return out + pq + rot


def spec_fun(spec):
    kind = spec[0]
    if kind == 'real':
        return jets.make_fun(spec[1])
    if kind == 'pq':
        p, q = spec[1], spec[2]
        return lambda x: jets.np_eval(p, x) + 1j * jets.np_eval(q, x)
    phi, p = spec[1], spec[2]
    w = cmath.exp(1j * phi)
    return lambda x: w * jets.np_eval(p, x)


def spec_show(spec):
    if spec[0] == 'real':
        return jets.show(spec[1])
    if spec[0] == 'pq':
        return '%s + 1j*%s' % (jets.show(spec[1]), jets.show(spec[2]))
    return 'exp(%.4gj)*%s' % (spec[1], jets.show(spec[2]))


class Combined(object):
    """Oracle quantities of a (possibly complex-valued) spec at one point."""

    def __init__(self, x, parts, weights):
        self.x = x
        self.parts = parts       # PointInfo per real program
        self.weights = weights   # complex weights: f = sum w_i p_i

    @property
    def R_an(self):
        return min(p.an.R_an for p in self.parts)

    def exact(self, n):
        return sum(w * complex(p.an.exact(n)) for w, p in zip(self.weights, self.parts))

    def scale(self, n):
        rho = min(p.an.scale(n)[1] for p in self.parts)
        S, ok = 0.0, True
        for w, p in zip(self.weights, self.parts):
            s, _, r = p.an.scale(n, rho=rho)
            S += abs(w) * s
            ok = ok and r
        return S, rho, ok


def spec_points(spec, points):
    kind = spec[0]
    if kind == 'real':
        infos = cm.analyse_points(spec[1], points)
        return [Combined(pi.x, [pi], [1.0]) for pi in infos if pi.ok]
    if kind == 'pq':
        a = {pi.x: pi for pi in cm.analyse_points(spec[1], points) if pi.ok}
        b = {pi.x: pi for pi in cm.analyse_points(spec[2], points) if pi.ok}
        return [Combined(x, [a[x], b[x]], [1.0, 1j]) for x in points if x in a and x in b]
    infos = cm.analyse_points(spec[2], points)
    return [Combined(pi.x, [pi], [cmath.exp(1j * spec[1])]) for pi in infos if pi.ok]


def terms(cfg, gen, comb):
    method, n, order = cfg
    hmax, hmin = cm.oracle_steps(method, max(n, 1), order, comb.x, gen) if n > 0 else (0.0, 0.0)
    if hmax is None:
        return None
    S, rho, resolved = comb.scale(n)
    classA = bool(resolved and n > 0 and comb.R_an >= cm.C_A[method] * hmax)
    fac = 1.0
    if method in ('central', 'forward', 'backward') and n > 0 and hmax > 0:
        fac = max(1.0, (rho / hmax) ** n)
    return dict(exact=comb.exact(n), S=S, rho=rho, classA=classA, fac=fac, hmax=hmax, hmin=hmin)


def run_spec(spec, points, tier, visit, quick_slice=0, honesty=False, want_steps=False):
    """Execute every configuration of one spec; visit(cfg, gen, comb, terms, res, form) per call.
    form: 'scalar' | ('array', index)"""
    fun = spec_fun(spec)
    combs = spec_points(spec, points)
    if not combs:
        return 0
    real = spec[0] == 'real'
    dpt = jets.depth(spec[1]) if real else jets.depth(spec[2])
    deep = real and dpt >= 3
    # (the quick grammar runs on the full pool in both tiers, so that quick cases are a subset of thorough cases)
    mid = tier == 'thorough' and dpt == 2 and not (real and spec[1] in _QUICK_GRAMMAR)
    if deep:      # depth-3 chains: 5-point sub-pool and orders {1, 2, 4, 6}
        combs = [c for c in combs if c.x in (0.05, 0.75, 4.0, 100.0, -2.0)]
    elif mid:     # depth-2 compositions / binaries: 6-point sub-pool and orders {1, 2, 3, 4, 6, 8}
        combs = [c for c in combs if c.x in (1e-3, 0.3, 1.5, 20.0, -0.3, -20.0)]
    methods = cm.METHODS if real else ['central', 'forward', 'backward']
    ncalls = 0
    stat = real and spec[1] in P.STATIONARY
    d1 = tier == 'thorough' and ((real and jets.depth(spec[1]) <= 1) or (spec[0] == 'rot' and jets.depth(spec[2]) <= 1) or stat)
    q1 = tier == 'quick' and real and ((jets.depth(spec[1]) <= 1 and fw.h64(spec) % 4 == quick_slice) or stat)
    for method in methods:
        gens = [('default', {})]
        if d1:
            gens = gens + cm.gen_menu(method, honesty)
        elif q1:
            gens = gens + cm.quick_gen_menu(method, honesty)
        for gen in gens:
            for n in range(0, cm.NMAX[method] + 1):
                orders = ([1, 2, 4, 6] if deep else ([1, 2, 3, 4, 6, 8] if mid else cm.ORDERS)) if gen[0] == 'default' else [1, 2, 3, 4]
                if gen[0] != 'default' and n == 0:
                    continue
                for order in orders:
                    cfg = (method, n, order)
                    if gen[0] == 'rows' and gen[1]['rows'] <= 0 and cm.sm.rule_length(method, n, order) < 2:
                        continue      # "one step too few" needs a rule of at least two steps
                    for comb in combs:
                        t = terms(cfg, gen, comb)
                        if t is None:
                            continue
                        pi = cm.PointInfo()
                        pi.x = comb.x
                        res = cm.run_config(fun, cfg, gen, pi, None, want_steps)
                        ncalls += 1
                        visit(cfg, gen, comb, t, res, 'scalar')
                    # one array call over all in-domain points (default generator only)
                    if gen[0] == 'default' and len(combs) > 1:
                        xs = np.array([c.x for c in combs])
                        forms = [('array', xs)]
                        if len(combs) >= 4:
                            # the same points as a Fortran-ordered 2-d array (element [i, j] <-> flat index i*k+j)
                            k = len(combs) // 2
                            forms.append(('arrayF', np.asfortranarray(xs[:2 * k].reshape(2, k))))
                        if len(combs) >= 2 and spec[0] == 'real':
                            # the same points, f written so that its values have a complex TYPE with imaginary part exactly
                            # zero at real x (a function written with cmath, np.emath or `+ 0j`): still a real-valued f
                            forms.append(('arrayC', xs))
                        for fname_, xa in forms:
                            pi = cm.PointInfo()
                            pi.x = xa
                            # the Fortran-ordered call also hands over n and order as numpy integers (`for n in np.arange(..)`) and builds
                            # the object positionally, Derivative(fun, step, method, order, n)
                            cfg_call = (method, np.int64(n), np.int32(order), 'positional') if fname_ == 'arrayF' else cfg
                            res = cm.run_config(_complex_typed(fun) if fname_ == 'arrayC' else fun, cfg_call, gen, pi, None)
                            ncalls += 1
                            for i, comb in enumerate(combs[:xa.size]):
                                t = terms(cfg, gen, comb)
                                if t is not None:
                                    visit(cfg, gen, comb, t, res, (fname_, i))
    return ncalls


def _complex_typed(fun):
    def f(x):
        return fun(x) + 0j
    return f


def _elem(v, form):
    if form == 'scalar':
        return complex(np.asarray(v).ravel()[0]) if np.size(v) == 1 else None
    a = np.asarray(v)
    if a.shape == ():
        return complex(a)
    return complex(a.ravel()[form[1]]) if a.size > form[1] else None


def work(chunk, points=None, tier='quick', quick_slice=0):
    acc = fw.Acc()
    fnfun = {}
    for spec in chunk:
        show = spec_show(spec)
        fun = spec_fun(spec)

        def visit(cfg, gen, comb, t, res, form, spec=spec, show=show, fun=fun):
            method, n, order = cfg
            case = (spec, comb.x, cfg, gen, form)
            jc = dict(spec=spec, x=comb.x, cfg=list(cfg), gen=list(gen), form=form, f=show)
            rank = jets.depth(spec[1] if spec[0] == 'real' else spec[2]) * 10000 + n * 100 + order
            cell = '%s/n=%d/order=%d' % (method, n, order)
            if res['status'] != 'ok':
                acc.case(case, nontrivial=False, outcome=res['status'])
                if gen[0] == 'rows' and gen[1]['rows'] <= 0 and res['status'] == 'raised-ValueError':
                    acc.count('too-few-steps:refused-with-ValueError')        # not accepted: nothing to judge
                    return
                acc.violation('C01:%s:%s:n=%d' % (method, res['status'], n), jc, res['exc'], rank)
                return
            v = _elem(res['val'], form)
            if v is None:
                acc.case(case, nontrivial=False, outcome='shape')
                acc.violation('C01:%s:result-shape' % method, jc,
                              'result has shape %r for %s input' % (np.shape(res['val']), form), rank)
                return
            if n == 0:
                with np.errstate(all='ignore'):
                    direct = np.asarray(fun(np.asarray(res['x'])))      # the same call the library makes
                direct = complex(direct.ravel()[0 if form == 'scalar' else form[1]])
                same = (direct == v)
                acc.case(case, nontrivial=True, cell=cell, outcome=same)
                if not same:
                    acc.violation('C01:%s:n=0-not-f(x)' % method, jc,
                                  'n=0 returned %r, f(x)=%r' % (v, direct), rank)
                return
            exact = t['exact']
            allow_unit = t['S'] * t['fac']
            if not t['classA']:
                acc.case(case, nontrivial=False, outcome='not-class-A')
                acc.count('not-class-A')
                return
            err = abs(v - exact)
            ratio = err / allow_unit if allow_unit > 0 else float('inf')
            if CALIBRATE:
                acc.maxi('%s/%s/%d' % ('E' if gen[0] == 'default' else 'EU', method, n), (ratio if math.isfinite(ratio) else 1e300,
                                                   '%s @%r order=%d gen=%r %s val=%r exact=%r S=%.3g fac=%.3g R=%.3g hmax=%.3g' % (
                                                       show, comb.x, order, gen, form, v, exact, t['S'], t['fac'], comb.R_an, t['hmax'])))
                acc.case(case, nontrivial=True, cell=cell)
                return
            E = cm.env('E' if gen[0] == 'default' else 'EU', method, n)
            nontriv = E * allow_unit < abs(exact) / 2
            acc.case(case, nontrivial=nontriv, cell=[cell, 'outer/' + str(P.outer_op(spec[1] if spec[0] == 'real' else spec[2])),
                                                     'kind/' + spec[0]],
                     outcome=(method, n, round(math.log10(min(ratio, 1e300) + 1e-300))))
            acc.maxi('worst_ratio/%s/%d' % (method, n), ratio if math.isfinite(ratio) else 1e300)
            if not (err <= E * allow_unit):
                kind = 'nonfinite' if not math.isfinite(err) else 'envelope'
                acc.violation('C01:%s:%s:n=%d%s' % (method, kind, n, '' if gen[0] == 'default' else ':gen=' + gen[0]), jc,
                              'Derivative(%s, n=%d, method=%s, order=%d, gen=%r)(%r) = %r, exact %r: error %.3g '
                              '> E=%g x S_n=%.3g x fac=%.3g' % (show, n, method, order, gen, comb.x, v, exact, err,
                                                                 E, t['S'], t['fac']), rank)

        run_spec(spec, points, tier, visit, quick_slice)
    return acc


# -- the documented option richardson_terms (and its combination with a step ratio) ----------------------------------------
# Closed forms; the allowance 1e-4 relative is far wider than what the unchanged tree does on these smooth functions
# (worst observed 8e-7: forward, n = 2, order 1, ratio 4) and far narrower than a wrong extrapolation weight (a factor).
RT_FUNS = {'exp(x/2)': (lambda x: np.exp(x / 2), lambda x, n: 0.5 ** n * math.exp(x / 2)),
           'sin(x)': (np.sin, lambda x, n: math.sin(x + n * math.pi / 2))}


def rterm_cases():
    return [(fn, m, n, o, rt, ratio, x) for fn in sorted(RT_FUNS) for m in ('central', 'forward', 'backward', 'complex')
            for n in (1, 2) for o in (1, 2, 3, 4) for rt in (1, 3) for ratio in (None, 1.6, 2, 4) for x in (0.3, 1.1)]


def work_rterms(chunk):
    import warnings
    import numdifftools as nd
    acc = fw.Acc()
    for fn, m, n, o, rt, ratio, x in chunk:
        f, ex = RT_FUNS[fn]
        kw = dict(n=n, method=m, order=o, richardson_terms=rt)
        if ratio is not None:
            kw['step_ratio'] = ratio
        case = ('rterms', fn, m, n, o, rt, ratio, x)
        jc = dict(kind='rterms', f=fn, x=x, kw=dict(kw))
        cell = 'richardson_terms=%d/%s' % (rt, 'default-ratio' if ratio is None else 'ratio-given')
        with warnings.catch_warnings():
            warnings.simplefilter('ignore')
            try:
                v = complex(np.asarray(nd.Derivative(f, **kw)(x)).ravel()[0])
            except Exception as e:
                if fw.library_origin(e) if hasattr(fw, 'library_origin') else True:
                    acc.case(case, nontrivial=True, cell=cell, outcome='raised')
                    acc.violation('C01:%s:richardson_terms:raised-%s' % (m, type(e).__name__), jc,
                                  'Derivative(%s, **%r)(%r) raised %s: %s' % (fn, kw, x, type(e).__name__, e), n * 100 + o)
                    continue
                raise
        exact = ex(x, n)
        rel = abs(v - exact) / max(abs(exact), 1e-3)
        acc.case(case, nontrivial=True, cell=cell, outcome=(m, n, rel <= 1e-4))
        if not rel <= 1e-4:
            acc.violation('C01:%s:richardson_terms=%d:n=%d:%s' % (m, rt, n, 'default-ratio' if ratio is None else 'ratio-given'), jc,
                          'Derivative(%s, **%r)(%r) = %r, exact %r: relative error %.3g > 1e-4' % (fn, kw, x, v, exact, rel),
                          n * 100 + o)
    return acc


def run(ctx):
    sp = specs(ctx)
    points = cm.quick_points(ctx) if ctx.quick else cm.POINTS
    acc = ctx.pmap(work, sp, chunk=1 if not ctx.quick else 2, points=points, tier=ctx.tier, quick_slice=ctx.seed % 4)
    if not CALIBRATE:
        acc.merge(ctx.pmap(work_rterms, rterm_cases(), chunk=64))
    for s in sp[:3] + sp[len(sp) // 2:len(sp) // 2 + 2] + sp[-2:]:
        acc.sample(dict(f=spec_show(s), points=points[:4], configs='all (method, n, order): %d' % len(cm.configs())))
    if CALIBRATE:
        import json
        print(json.dumps({k: v for k, v in sorted(acc.extra.items())}, indent=0))
        return 0
    req = ['%s/n=%d/order=%d' % c for c in cm.configs() if c[1] > 0] + ['%s/n=0/order=2' % m for m in cm.METHODS]
    rule = ('%d function specs (grammar simplest-first: depth-1%s; complex-valued p+iq and exp(i phi) p for the '
            'real-step methods) x points %r x all (method, n, order) (240 configs) with the default generator, scalar '
            'and array call%s; oracle = 60-digit jets; accuracy is claimed on class-A cases only (analyticity radius '
            '>= c_A x largest documented step), envelope E(method,n) x S_n x max(1,(rho/h_max)^n) for the real-step '
            'methods; non-trivial = E*S_n*fac < |exact|/2 (the envelope separates the result from 0 and from its '
            'negative); n=0 must return f(x) bit for bit; any exception is a violation.'
            % (len(sp), ', depth-2 compositions/binary, depth-3 chains' if not ctx.quick else '', points,
               '; + user generator menu on depth-1 programs' if not ctx.quick else ''))
    return fw.finish(ctx, acc, LEVEL, rule, exhaustive=True, required_cells=req,
                     assumptions=['envelope constants are calibrated numbers frozen in envelopes.json',
                                  'the analyticity radius is a conservative (majorant-based) lower bound',
                                  'points and programs outside the stated pools are not covered'])


def replay(case):
    if case.get('kind') == 'rterms':
        import numdifftools as nd
        f, ex = RT_FUNS[case['f']]
        v = complex(np.asarray(nd.Derivative(f, **case['kw'])(case['x'])).ravel()[0])
        exact = ex(case['x'], case['kw']['n'])
        rel = abs(v - exact) / max(abs(exact), 1e-3)
        return rel <= 1e-4, 'Derivative(%s, **%r)(%r) = %r, exact %r, relative error %.3g (allowed 1e-4)' % (
            case['f'], case['kw'], case['x'], v, exact, rel)
    spec = _tuplify(case['spec'])
    cfg = tuple(case['cfg'])
    gen = (case['gen'][0], case['gen'][1])
    x = case['x']
    form = case['form'] if case['form'] == 'scalar' else 'scalar'
    combs = spec_points(spec, [x])
    if not combs:
        return True, 'point not in domain'
    comb = combs[0]
    t = terms(cfg, gen, comb)
    pi = cm.PointInfo()
    pi.x = x
    res = cm.run_config(spec_fun(spec), cfg, gen, pi, None)
    if res['status'] != 'ok':
        return False, 'raised %s' % res['exc']
    v = _elem(res['val'], 'scalar')
    method, n, order = cfg
    if n == 0:
        return True, 'n=0 value %r' % v
    err = abs(v - t['exact'])
    E = cm.env('E' if gen[0] == 'default' else 'EU', method, n)
    ok = (not t['classA']) or err <= E * t['S'] * t['fac']
    return ok, ('f=%s x=%r cfg=%r gen=%r: value %r exact %r err %.3g allowance %.3g (E=%g S=%.3g fac=%.3g classA=%r)'
                % (spec_show(spec), x, cfg, gen, v, t['exact'], err, E * t['S'] * t['fac'], E, t['S'], t['fac'], t['classA']))


def _tuplify(o):
    if isinstance(o, list):
        return tuple(_tuplify(v) for v in o)
    return o
