"""C04 - Hessian is symmetric and correct; Hessdiag is its diagonal (DESIGN 5/C04).

E1: (function spec) x n x point kind x entry point {Hessian, Hessdiag} x method x order x generator.
Oracle: mc/oracle/ridge_hess.py (closed-form Hessians in mpmath, cross-checked against 60-digit jets of
the line restrictions), local scale S_2 per entry from mc/oracle/scale.py, documented steps from
mc/oracle/stepmodel.py.  Nothing is sampled; the quick tier takes a seed-rotated slice of the ridge pairs.

VERIF_CALIBRATE=1: accuracy is not judged; the worst observed err/(S*fac) is reported per
(method[, order]) and per (method, family, generator kind) under measures 'cal/...'.
"""
import json
import itertools
import math
import os
import warnings

import numpy as np

from mc import framework as fw
from mc.oracle import ridge_hess as rh
from mc.oracle import scale as sc
from mc.oracle import stepmodel as sm

LEVEL = 'exploration'
CALIBRATE = bool(os.environ.get('VERIF_CALIBRATE'))
EPS = float(np.finfo(float).eps)
METHODS = ['central', 'central2', 'forward', 'backward', 'complex', 'multicomplex']
REAL_STEP = ['central', 'central2', 'forward', 'backward']
HD_ORDERS = [2, 4, 6]
C_A = dict(central=1.1, central2=1.1, forward=1.1, backward=1.1, complex=8.0, multicomplex=8.0)
E_FALLBACK = dict(central=1e-6, central2=1e-6, complex=1e-6, multicomplex=1e-6, forward=1e-3, backward=1e-3)
K1 = 100.0
QUAD_C = 1e4                      # quadratic exactness: QUAD_C * eps * qscale * fac
HESSIAN_ORDER = dict(forward=1, backward=1)      # documented fixed order of Hessian per method (else 2)
XKINDS = ['ramp', 'big', 'small', 'mixed']
MIXED = [1.5, -0.7, 2.0, -0.2, 0.9, -3.0, 0.4, -1.1]

_ENV_PATH = os.path.join(fw.VERIF, 'envelopes.json')
ENV = json.load(open(_ENV_PATH)) if os.path.exists(_ENV_PATH) else {}


def env(table, method, order=None):
    """E constants: keys 'EH/<method>' / 'EHD/<method>/<order>' (flat or as nested table); fallback if absent."""
    sub = method if order is None else '%s/%d' % (method, order)
    v = ENV.get('%s/%s' % (table, sub))
    if v is None and isinstance(ENV.get(table), dict):
        v = ENV[table].get(sub)
    if v is None:
        return E_FALLBACK[method], False
    return float(v), True


def point(kind, n):
    if kind == 'ramp':
        return [0.3 + 0.1 * i for i in range(n)]
    if kind == 'big':
        return [25.0] * n
    if kind == 'small':
        return [1e-3] * n
    return MIXED[:n]


# ---------------------------------------------------------------------------------------------
# the enumerated space

def ridge_pairs():
    return [('ridge', g, h) for g in rh.RIDGE_FUNS for h in rh.RIDGE_FUNS]


def specs(ctx):
    pairs = ridge_pairs()
    fixed = ('ridge', 'exp', 'sin')
    if ctx.quick:
        chosen = [fixed] + [p for p in ctx.rotate([p for p in pairs if p != fixed], 7)]
    else:
        chosen = pairs
    real = [('quad', 0), ('quad', 1), ('esq',)] + chosen
    arr1 = [('quad', 0), ('esq',), fixed]
    cplx = [(('esq',), ('ridge', 'sin', 'cosh')), (('quad', 0), ('quad', 1)), (fixed, ('esq',))]
    if not ctx.quick:
        arr1 += [('quad', 1), ('ridge', 'cosh', 'sq'), ('ridge', 'arctan', 'lor')]
        cplx += [(('ridge', 'cosh', 'sq'), ('ridge', 'arctan', 'exp')), (('ridge', 'lor', 'sin'), ('quad', 1)),
                 (('ridge', 'sq', 'sq'), ('ridge', 'exp', 'cosh')), (('quad', 1), ('ridge', 'sin', 'arctan'))]
    return real + [('arr1', s) for s in arr1] + [('cplx', p, q) for p, q in cplx]


def gen_menu(method, tier, entry):
    gens = [('default', {})]
    if tier != 'thorough':
        return gens
    if method in REAL_STEP:
        for bs in (0.25, 0.02):
            for ns in (15, 25):
                for sr in (2, 1.6):
                    if entry == 'Hessdiag' and (bs, ns, sr) not in ((0.25, 15, 2), (0.02, 25, 1.6)):
                        continue       # Hessdiag: two corner generators x three orders
                    gens.append(('Max', dict(base_step=bs, num_steps=ns, step_ratio=sr)))
    gens.append(('Min', dict(num_extrap=4)))
    gens.append(('scalar', dict(step=1e-2)))
    return gens


def items(ctx):
    ns = range(1, 5) if ctx.quick else range(1, 7)
    return [(s, n, xk) for s in specs(ctx) for n in ns for xk in XKINDS]


def methods_for(spec):
    return REAL_STEP if rh.retkind(spec) == 'complex-valued-f' else METHODS


# ---------------------------------------------------------------------------------------------
# executing the library

def run_call(fun, entry, method, order, gen, x):
    import numdifftools as nd
    import numdifftools.finite_difference as fdm
    from numdifftools.step_generators import MinStepGenerator, MaxStepGenerator
    fw.fresh_library_state()
    kw = dict(method=method, full_output=True)
    if entry == 'Hessdiag':
        kw['order'] = order
    gkind, gopts = gen
    if gkind == 'Max':
        kw['step'] = MaxStepGenerator(**gopts)
    elif gkind == 'Min':
        kw['step'] = MinStepGenerator(**gopts)
    elif gkind == 'scalar':
        kw['step'] = gopts['step']
    res = dict(status='ok')
    try:
        with warnings.catch_warnings():
            warnings.simplefilter('ignore')
            with np.errstate(all='ignore'):
                obj = getattr(nd, entry)(fun, **kw)
                val, info = obj(np.array(x, dtype=float))
        res['val'] = val
        res['est'] = info.error_estimate
        res['info'] = info
    except Exception as e:        # an exception of the library is an observation, not a harness crash
        res['status'] = 'raised-' + type(e).__name__
        res['exc'] = '%s: %s' % (type(e).__name__, str(e)[:300])
    return res


_HMAX = {}


def oracle_hmax(entry, method, order, x, gen):
    """Largest documented step per coordinate (step model), or None if the model yields no step."""
    key = (entry, method, order, tuple(x), gen[0], tuple(sorted(gen[1].items())))
    if key in _HMAX:
        return _HMAX[key]
    if entry == 'Hessian':
        mo = HESSIAN_ORDER.get(method, 2)
    else:
        mo = sm.method_order(method, 2, order)
    gkind, gopts = gen
    if gkind == 'default':
        cls, opts = sm.derivative_generator(method, None)
    elif gkind == 'scalar':
        cls, opts = sm.derivative_generator(method, gopts['step'])
    else:
        cls, opts = gkind, dict(gopts)
    steps, _, _ = sm.steps(cls, np.array(x, dtype=float), method, 2, mo, **opts)
    out = np.max(np.abs(np.array(steps)), axis=0) if steps else None
    _HMAX[key] = out
    return out


# ---------------------------------------------------------------------------------------------
# judging one call

class Verdict(object):
    def __init__(self):
        self.viol = []           # (key, detail)
        self.nontrivial = False
        self.cells = []
        self.outcome = None
        self.measures = {}       # name -> value (max-merged)
        self.counts = {}
        self.sample = None

    def bad(self, key, detail):
        self.viol.append((key, detail))

    def maxi(self, name, value):
        if name not in self.measures or value > self.measures[name]:
            self.measures[name] = value

    def count(self, name, k=1):
        self.counts[name] = self.counts.get(name, 0) + k


def _nclass(n):
    return 'n=1' if n == 1 else 'n=2' if n == 2 else 'n>=3'


def _gsuffix(gen):
    return '' if gen[0] == 'default' else ':gen=' + gen[0]


def entry_terms(orc, entry, method, order, gen):
    """Oracle-side per-entry quantities: class-A mask, allowance unit S*fac, E; None if no documented step."""
    n = orc.n
    hmax = oracle_hmax(entry, method, order, orc.x, gen)
    if hmax is None:
        return None
    reach = 2.0 if (entry == 'Hessian' or method == 'central2') else 1.0
    hij = np.maximum.outer(hmax, hmax)
    classA = orc.resolved & (orc.R >= C_A[method] * reach * hij) & np.isfinite(orc.S)
    fac = np.ones((n, n))
    if method in REAL_STEP:
        fac = np.maximum(1.0, (orc.rho / hij) ** 2)
    nomij = np.array([[sc.step_nom(max(abs(orc.x[i]), abs(orc.x[j]))) for j in range(n)] for i in range(n)])
    qfac = np.maximum(1.0, (nomij / hij) ** 2) if method in REAL_STEP else np.ones((n, n))
    if entry == 'Hessian':
        E, frozen = env('EH', method)
    else:
        E, frozen = env('EHD', method, order)
    # a scalar user step is documented as "no extrapolation steps" (MinStepGenerator(base_step=step,
    # num_extrap=0)): the raw p-th order formula is all there is, so its Taylor remainder is allowed for:
    # h^p |f^(2+p)| <= ((p+2)!/2) S_2 (h/rho)^p by the definition of S_2, h = reach x largest step.
    trunc = np.zeros((n, n))
    if gen[0] == 'scalar':
        p = 1 if (entry == 'Hessian' and method in HESSIAN_ORDER) else 2
        trunc = (math.factorial(p + 2) / 2.0) * orc.S * (reach * hij / orc.rho) ** p
    return dict(classA=classA, unit=orc.S * fac, fac=fac, qfac=qfac, E=E, frozen=frozen, hij=hij, trunc=trunc)


def judge(spec, n, xk, entry, method, order, gen, orc, res):
    """All checks of one Hessian / Hessdiag call.  Returns a Verdict."""
    v = Verdict()
    rk = rh.retkind(spec)
    fam = rh.family(spec)
    gs = _gsuffix(gen)
    t = entry_terms(orc, entry, method, order, gen)
    if t is None:
        v.outcome = 'no-steps'
        return v
    exact = orc.H if entry == 'Hessian' else np.diag(orc.H)
    mask = t['classA'] if entry == 'Hessian' else np.diag(t['classA'])
    unit = t['unit'] if entry == 'Hessian' else np.diag(t['unit'])
    trunc = t['trunc'] if entry == 'Hessian' else np.diag(t['trunc'])
    E = t['E']
    # non-triviality: oracle side only (the envelope separates an entry from 0 and from its negative)
    nt = mask & (E * unit + trunc < np.abs(exact) / 2)
    v.nontrivial = bool(nt.any())
    if entry == 'Hessian':
        v.cells.append('Hessian/%s/%s' % (method, _nclass(n)))
        far = np.triu(np.ones((n, n), dtype=bool), 2)
        if (nt & far).any():
            v.cells.append('Hessian/%s/offdiag-i<j-1' % method)
        if (nt & np.triu(np.ones((n, n), dtype=bool), 1)).any():
            v.cells.append('Hessian/%s/offdiag' % method)
    else:
        v.cells.append('Hessdiag/%s/order=%d' % (method, order))
        v.cells.append('Hessdiag/%s/%s' % (method, _nclass(n)))
    v.cells.append('%s/%s' % (entry, rk))
    v.cells.append('%s/%s/%s' % (entry, rk, method))
    v.cells.append('%s/family=%s' % (entry, fam))
    v.cells.append('%s/gen=%s' % (entry, gen[0]))
    v.cells.append('x=%s' % xk)

    call = '%s(f, method=%r%s%s)(%r), f = %s, n = %d' % (
        entry, method, ', order=%d' % order if entry == 'Hessdiag' else '',
        '' if gen[0] == 'default' else ', step=%s%r' % (gen[0], gen[1]), orc.x, rh.show(spec), n)
    if res['status'] != 'ok':
        v.outcome = res['status']
        v.bad('C04:%s:%s:%s' % (entry, res['status'], rk), '%s raised %s' % (call, res['exc']))
        return v
    val = np.asarray(res['val'])
    want = (n, n) if entry == 'Hessian' else (n,)
    if val.shape != want:
        v.bad('C04:%s:shape:%s' % (entry, rk), '%s returned shape %r, expected %r' % (call, val.shape, want))
        if val.size != int(np.prod(want)):
            v.outcome = 'shape'
            return v
        val = val.reshape(want)
    if entry == 'Hessian':
        a, b = val, val.T
        same = (a == b) | ((a != a) & (b != b))
        if not same.all():
            i, j = [int(k) for k in np.argwhere(~same)[0]]
            v.bad('C04:Hessian:asymmetric:%s' % method,
                  '%s: H[%d,%d] = %r but H[%d,%d] = %r (must be bitwise equal)' % (call, i, j, val[i, j], j, i, val[j, i]))
    err = np.abs(val - exact)
    finite = np.isfinite(err)
    ratio = np.where(unit > 0, np.maximum(err - trunc, 0.0) / np.where(unit > 0, unit, 1.0), np.inf)   # (err-T)/(S*fac)
    nA = int(mask.sum())
    v.count('entries-class-A', nA)
    v.count('entries-not-class-A', int(mask.size - nA))
    worst = 0.0
    if nA:
        rA = np.where(mask, np.where(finite, ratio, np.inf), -1.0)
        idx = np.unravel_index(int(np.argmax(rA)), rA.shape)
        worst = float(rA[idx])
        wr = worst if math.isfinite(worst) else 1e300
        name = ('EH/%s' % method) if entry == 'Hessian' else ('EHD/%s/%d' % (method, order))
        text = '%s entry %r: value %r exact %r S=%.3g fac=%.3g' % (call, tuple(int(k) for k in idx), val[idx], exact[idx],
                                                                  float(np.asarray(unit)[idx] / np.asarray(
                                                                      t['fac'] if entry == 'Hessian' else np.diag(t['fac']))[idx]),
                                                                  float(np.asarray(t['fac'] if entry == 'Hessian' else np.diag(t['fac']))[idx]))
        v.maxi('worst/' + name, wr)
        if CALIBRATE:
            v.maxi('cal/' + name, (wr, text))
            v.maxi('cal/%s/%s/%s' % (name, fam, gen[0]), (wr, text))
        else:
            badm = mask & ~(err <= E * unit + trunc)
            if badm.any():
                kind = 'nonfinite' if not finite[idx] else 'envelope'
                where = ''
                if entry == 'Hessian':
                    where = ':diag' if idx[0] == idx[1] else ':offdiag'
                key = 'C04:%s:%s:%s%s%s:%s%s' % (entry, kind, method, ':order=%d' % order if entry == 'Hessdiag' else '',
                                                  where, rk, gs)
                v.bad(key, '%s: error %.3g > E=%g x S x fac%s = %.3g (%d of %d class-A entries outside)' % (
                    text, float(err[idx]), E, ' + truncation term' if gen[0] == 'scalar' else '',
                    float(E * np.asarray(unit)[idx] + np.asarray(trunc)[idx]), int(badm.sum()), nA))
    # quadratics: exact to rounding (Hessian only; the statement claims exactness for Hessian)
    if entry == 'Hessian' and orc.qscale is not None:
        allow = QUAD_C * EPS * orc.qscale * t['qfac']
        q = np.where(finite, err / (EPS * orc.qscale * t['qfac']), np.inf)
        idx = np.unravel_index(int(np.argmax(q)), q.shape)
        wq = float(q[idx]) if math.isfinite(float(q[idx])) else 1e300
        v.maxi('worst/QUAD-eps-units/%s' % method, wq)
        if CALIBRATE:
            v.maxi('cal/QUAD-eps-units/%s/%s' % (method, gen[0]), (wq, '%s entry %r: value %r exact %r qscale=%.3g qfac=%.3g' % (
                call, tuple(int(k) for k in idx), val[idx], exact[idx], orc.qscale, float(t['qfac'][idx]))))
        if not (err <= allow).all():
            v.bad('C04:Hessian:quadratic-inexact:%s:%s:%s%s' % (method, 'diag' if idx[0] == idx[1] else 'offdiag', rk, gs),
                  '%s entry %r: value %r exact %r: error %.3g = %.3g eps x scale(%.3g) x fac(%.3g), allowed %g eps-units' % (
                      call, tuple(int(k) for k in idx), val[idx], exact[idx], float(err[idx]), wq, orc.qscale,
                      float(t['qfac'][idx]), QUAD_C))
    v.outcome = (entry, method, order, 'ok', int(round(math.log10(min(max(worst, 1e-300), 1e300)))))
    return v


def judge_agree(spec, n, method, order, gen, orc, resH, resD):
    """|diag(Hessian) - Hessdiag| <= K1 (est_H + est_D) + floor on class-A diagonal entries."""
    v = Verdict()
    tH = entry_terms(orc, 'Hessian', method, None, gen)
    tD = entry_terms(orc, 'Hessdiag', method, order, gen)
    if tH is None or tD is None:
        return v
    mask = np.diag(tH['classA']) & np.diag(tD['classA'])
    if not mask.any():
        return v
    # coverage is decided here, from oracle-side quantities only; what the library returned comes after
    v.nontrivial = True
    v.cells.append('agree/%s/order=%d' % (method, order))
    if resH['status'] != 'ok' or resD['status'] != 'ok':
        v.outcome = 'not-comparable'       # the failing call is reported by judge() under its own key
        return v
    H, D = np.asarray(resH['val']), np.asarray(resD['val'])
    if H.shape != (n, n) or D.size != n:
        v.outcome = 'not-comparable'
        return v
    D = D.reshape(n)
    try:
        eH = np.abs(np.diag(np.asarray(resH['est']).reshape(n, n)))
        eD = np.abs(np.asarray(resD['est']).reshape(n))
    except ValueError:
        return v              # shapes of the estimates are C02's subject
    unit = np.diag(tH['unit'])
    floor = 0.01 * (tH['E'] + tD['E']) * unit
    diff = np.abs(np.diag(H) - D)
    est = eH + eD
    trunc = np.diag(tH['trunc']) + np.diag(tD['trunc'])            # scalar user steps only (else 0)
    bound = K1 * est + floor + trunc
    need = np.where(mask, (diff - K1 * est - trunc) / unit, -np.inf)         # floor needed, in units of S*fac
    r = np.where(mask, diff / np.where(bound > 0, bound, 1e-300), -1.0)
    idx = int(np.argmax(np.where(np.isfinite(r), r, np.inf)))
    wr = float(r[idx]) if math.isfinite(float(r[idx])) else 1e300
    v.maxi('worst/agree-ratio/%s/%d' % (method, order), wr)
    if CALIBRATE:
        nd_ = float(np.max(need))
        v.maxi('cal/agree-floor-needed/%s/%d' % (method, order), nd_ if math.isfinite(nd_) else 1e300)
        return v
    ok = (~mask) | (diff <= bound)
    if not ok.all():
        v.bad('C04:agree:Hessian-vs-Hessdiag:%s:order=%d:%s%s' % (method, order, rh.retkind(spec), _gsuffix(gen)),
              'f = %s, x = %r, method %s, gen %r: diag(Hessian)[%d] = %r, Hessdiag(order=%d)[%d] = %r, difference %.3g > '
              'K1=%g x (%.3g + %.3g) + floor %.3g' % (rh.show(spec), orc.x, method, gen, idx, np.diag(H)[idx], order, idx,
                                                     D[idx], float(diff[idx]), K1, float(eH[idx]), float(eD[idx]),
                                                     float(floor[idx])))
    return v


# ---------------------------------------------------------------------------------------------
# one work item = (spec, n, point kind): oracle once, then every call

FAMILY_RANK = dict(quad=0, esq=1, ridge=2, cplx=3)


def _rank(spec, n, entry, method, order, gen):
    return (n * 100000 + FAMILY_RANK[rh.family(spec)] * 10000 + (0 if gen[0] == 'default' else 5000)
            + (0 if spec[0] not in ('arr1',) else 1000) + METHODS.index(method) * 10 + (order or 0))


def run_item(item, tier, feed):
    """feed(case_id, case_json, verdict, rank) for every call / comparison of the item; returns #calls."""
    spec, n, xk = item
    x = point(xk, n)
    orc = rh.analyse(spec, x)
    fun = rh.make_fun(spec, n)
    ncalls = 0
    for method in methods_for(spec):
        hres = {}
        for gen in gen_menu(method, tier, 'Hessian'):
            res = run_call(fun, 'Hessian', method, None, gen, x)
            ncalls += 1
            hres[_gkey(gen)] = res
            v = judge(spec, n, xk, 'Hessian', method, None, gen, orc, res)
            if n == 3 and xk == 'mixed' and gen[0] == 'default' and method in ('central', 'forward') and \
                    spec in (('quad', 0), ('esq',), ('ridge', 'exp', 'sin'), ('cplx', ('esq',), ('ridge', 'sin', 'cosh'))):
                v.sample = dict(call='Hessian(f, method=%r, full_output=True)(%r)' % (method, x), f=rh.show(spec), n=n,
                                observed=res.get('val') if res['status'] == 'ok' else res['exc'], exact=orc.H,
                                S=orc.S, worst_err_over_S=v.measures.get('worst/EH/' + method))
            feed((spec, n, xk, 'Hessian', method, None, gen), _case(spec, n, xk, 'Hessian', method, None, gen), v,
                 _rank(spec, n, 'Hessian', method, None, gen))
        for order in HD_ORDERS:
            for gen in gen_menu(method, tier, 'Hessdiag'):
                res = run_call(fun, 'Hessdiag', method, order, gen, x)
                ncalls += 1
                v = judge(spec, n, xk, 'Hessdiag', method, order, gen, orc, res)
                feed((spec, n, xk, 'Hessdiag', method, order, gen), _case(spec, n, xk, 'Hessdiag', method, order, gen), v,
                     _rank(spec, n, 'Hessdiag', method, order, gen))
                if _gkey(gen) in hres:
                    va = judge_agree(spec, n, method, order, gen, orc, hres[_gkey(gen)], res)
                    if va.cells or va.viol:
                        feed((spec, n, xk, 'agree', method, order, gen), _case(spec, n, xk, 'agree', method, order, gen),
                             va, _rank(spec, n, 'Hessdiag', method, order, gen))
    return ncalls, orc


def _gkey(gen):
    return (gen[0], tuple(sorted(gen[1].items())))


def _case(spec, n, xk, entry, method, order, gen):
    return dict(spec=spec, f=rh.show(spec), n=n, xkind=xk, x=point(xk, n), entry=entry, method=method, order=order,
                gen=[gen[0], gen[1]])


def work(chunk, tier='quick'):
    acc = fw.Acc()
    for item in chunk:
        def feed(case_id, cj, v, rank, acc=acc):
            is_call = case_id[3] != 'agree'
            acc.case(case_id, nontrivial=v.nontrivial, cell=v.cells, outcome=v.outcome)
            acc.count('library-calls' if is_call else 'Hessian-vs-Hessdiag-comparisons')
            for k, val in v.measures.items():
                acc.maxi(k, val)
            for k, c in v.counts.items():
                acc.count(k, c)
            if v.sample is not None:
                acc.sample(v.sample)
            for key, detail in v.viol:
                cj2 = dict(cj)
                cj2['key'] = key
                acc.violation(key, cj2, detail, rank)
        _, orc = run_item(item, tier, feed)
        acc.maxi('oracle-selfcheck-worst-rel', orc.worst_selfcheck)
        acc.count('items')
    return acc


def required_cells(ctx):
    req = []
    for m in METHODS:
        req += ['Hessian/%s/%s' % (m, c) for c in ('n=1', 'n=2', 'n>=3')]
        req += ['Hessian/%s/offdiag-i<j-1' % m]
        req += ['Hessdiag/%s/order=%d' % (m, o) for o in HD_ORDERS]
        req += ['Hessdiag/%s/%s' % (m, c) for c in ('n=1', 'n=2', 'n>=3')]
        req += ['Hessian/length-1-array-valued-f/%s' % m, 'Hessdiag/length-1-array-valued-f/%s' % m]
    for m in REAL_STEP:
        req += ['Hessian/complex-valued-f/%s' % m, 'Hessdiag/complex-valued-f/%s' % m]
    req += ['Hessian/family=%s' % f for f in ('quad', 'esq', 'ridge', 'cplx')]
    req += ['x=%s' % k for k in XKINDS]
    req += ['agree/%s/order=%d' % (m, o) for m in METHODS for o in HD_ORDERS]
    if not ctx.quick:
        req += ['Hessian/gen=%s' % g for g in ('Max', 'Min', 'scalar')]
    return req


# ---------------------------------------------------------------------------------------------
# quartic polynomials on four moderately large steps (0.08 ... 0.01): the raw second differences carry visible
# h (one-sided), h^2 (central, complex) terms; the extrapolation stage removes them exactly if and only if it is set
# up for the error powers of the method.  With the tiny default steps a wrong pairing is invisible.

def quartic(n):
    """f(x) = (a.x)^4 + (b.x)^3 (c.x) + 0.5 x'Qx, closed-form Hessian"""
    a = np.array([1.0, -0.5, 0.75, 0.25][:n])
    b = np.array([0.5, 1.0, -0.25, -0.75][:n])
    c = np.array([-1.0, 0.5, 1.0, 0.25][:n])
    Q = np.array([[(-1.0) ** (i + j) * (1.0 + 0.5 * abs(i - j)) for j in range(n)] for i in range(n)])

    def f(x):
        return np.dot(a, x) ** 4 + np.dot(b, x) ** 3 * np.dot(c, x) + 0.5 * np.dot(x, np.dot(Q, x))

    def hess(x):
        ax, bx, cx = float(np.dot(a, x)), float(np.dot(b, x)), float(np.dot(c, x))
        return (12 * ax * ax * np.outer(a, a) + 6 * bx * cx * np.outer(b, b)
                + 3 * bx * bx * (np.outer(b, c) + np.outer(c, b)) + Q)

    def size(x):
        ax, bx, cx = (float(np.dot(np.abs(v), np.abs(x))) for v in (a, b, c))
        return ax ** 4 + bx ** 3 * cx + 0.5 * float(np.dot(np.abs(x), np.dot(np.abs(Q), np.abs(x)))) + 1.0
    return f, hess, size


def work_quartic(chunk):
    import numdifftools as nd
    from numdifftools.step_generators import MinStepGenerator
    acc = fw.Acc()
    for n, xk, method in chunk:
        f, hess, size = quartic(n)
        x = np.array([0.7, -1.3, 0.4, 1.1][:n]) if xk == 'mixed' else np.array([0.3, 0.4, 0.5, 0.6][:n])
        H = hess(x)
        # rounding of a second difference: eps |f| / h^2 with h >= 0.01, amplified by the extrapolation weights
        allow = 1e-8 * size(x)
        entries = [('Hessian', None)] + [('Hessdiag', o) for o in ((2,) if method == 'multicomplex' else (2, 4))]
        # the base step as a scalar, and per coordinate (documented "float, array-like") as ndarray / list: the four steps
        # of every coordinate still determine the h, h^2 terms of a quartic exactly
        per = [0.01, 0.02, 0.005, 0.015][:n]
        forms = [('scalar', 0.01), ('negative', -0.01)] + ([('ndarray', np.array(per)), ('list', list(per)), ('tuple+step_nom', tuple(per))] if n > 1 else [])
        for (entry, order), (form, base) in itertools.product(entries, forms):
            fw.fresh_library_state()
            # ('tuple+step_nom': what a plain per-coordinate `step=(...)` turns into: the base step as given, step_nom = 1)
            kw = dict(method=method, step=MinStepGenerator(base_step=base, num_steps=4, step_ratio=2,
                                                           **(dict(step_nom=1.0) if form == 'tuple+step_nom' else {})))
            if order is not None:
                kw['order'] = order
            case = ('quartic', n, xk, method, entry, order) + (() if form == 'scalar' else (form,))
            jc = dict(kind='quartic', n=n, xkind=xk, method=method, entry=entry, order=order)
            if form != 'scalar':
                jc['base_step_form'] = form
            try:
                with warnings.catch_warnings():
                    warnings.simplefilter('ignore')
                    with np.errstate(all='ignore'):
                        val = np.asarray(getattr(nd, entry)(f, **kw)(x))
            except Exception as e:      # noqa: BLE001
                acc.case(case, nontrivial=True, cell='quartic/%s' % method, outcome='raised')
                acc.violation('C04:%s:raised-%s:quartic%s' % (entry, type(e).__name__, '' if form == 'scalar' else ':base_step-' + form), jc, '%s: %s' % (type(e).__name__, e), n)
                continue
            want = H if entry == 'Hessian' else np.diag(H)
            err = float(np.max(np.abs(val - want))) if val.shape == want.shape else float('inf')
            acc.case(case, nontrivial=True, cell='quartic/%s' % method, outcome=err <= allow)
            acc.maxi('quartic/worst error over allowance', err / allow)
            if not err <= allow:
                head = '%s(quartic polynomial, method=%r%s, step=MinStepGenerator(base_step=%r (%s), num_steps=4, step_ratio=2))' % (
                    entry, method, '' if order is None else ', order=%d' % order, base if form == 'scalar' else per, form)
                acc.violation('C04:%s:quartic-inexact:%s%s' % (entry, method, '' if form == 'scalar' else ':base_step-' + form), jc,
                              '%s(%r): max error %.3g > %.3g (the four steps determine the h, h^2 terms of a quartic exactly); got %r, '
                              'exact %r' % (head, x.tolist(), err, allow, val.tolist(), want.tolist()), n)
    return acc


# -- the function assigned after construction --------------------------------------------------------------
# `fun` is a plain public attribute (the library's own examples build Hessian(None) and assign it): the object must
# differentiate the function it holds at call time, whether that function returns a scalar or a length-1 array

FUN_STARTS = ['None', 'other-function', 'used-with-other-function']
FUN_KINDS = ['scalar', 'length-1-array']


def work_fun_assigned(chunk):
    import numdifftools as nd
    from numdifftools.step_generators import MinStepGenerator
    acc = fw.Acc()
    n = 3
    f, hess, size = quartic(n)
    x = np.array([0.3, 0.4, 0.5])
    H = hess(x)
    allow = 1e-8 * size(x)

    def other(t):
        return np.dot(t, t) + np.exp(0.1 * t[0])
    for entry, method, start, kind in chunk:
        fw.fresh_library_state()
        g = f if kind == 'scalar' else (lambda t: np.array([f(t)]))
        case = ('fun-assigned', entry, method, start, kind)
        jc = dict(kind='fun-assigned', entry=entry, method=method, start=start, fkind=kind)
        record = {}
        try:
            with warnings.catch_warnings():
                warnings.simplefilter('ignore')
                with np.errstate(all='ignore'):
                    obj = getattr(nd, entry)(None if start == 'None' else other, method=method, full_output=True,
                                             step=MinStepGenerator(base_step=0.01, num_steps=4, step_ratio=2))
                    if start == 'used-with-other-function':
                        obj(x)
                    obj.fun = g
                    val, info = obj(x)
                    val = np.asarray(val)
                    record = dict(f_value=np.asarray(info.f_value), est=np.asarray(info.error_estimate))
        except Exception as e:      # noqa: BLE001
            acc.case(case, nontrivial=True, cell='fun-assigned/%s' % entry, outcome='raised')
            acc.violation('C04:%s:raised-%s:fun-assigned-after-construction:%s' % (entry, type(e).__name__, kind), jc,
                          '%s built with %s, then .fun = quartic (%s-valued): %s: %s' % (entry, start, kind, type(e).__name__, e), 1)
            continue
        want = H if entry == 'Hessian' else np.diag(H)
        err = float(np.max(np.abs(val - want))) if val.shape == want.shape else float('inf')
        prob = None
        if not err <= allow:
            prob = ('value', 'result %r, exact %r (max error %.3g > %.3g)' % (val.tolist(), want.tolist(), err, allow))
        elif entry == 'Hessian' and not np.array_equal(val, val.T):
            prob = ('asymmetric', 'result %r is not exactly symmetric' % (val.tolist(),))
        elif not (np.size(record['f_value']) == 1 and float(np.ravel(record['f_value'])[0]) == float(f(x))):
            prob = ('f_value', 'info.f_value = %r, f(x) = %r' % (record['f_value'].tolist(), float(f(x))))
        acc.case(case, nontrivial=True, cell='fun-assigned/%s' % entry, outcome=prob is None)
        if prob:
            acc.violation('C04:%s:%s:fun-assigned-after-construction:%s' % (entry, prob[0], kind), jc,
                          '%s(method=%r) built with %s, then .fun = quartic (%s-valued), called at %r: %s'
                          % (entry, method, start, kind, x.tolist(), prob[1]), 1)
    return acc


def work_partial_rows(chunk):
    """functions that overflow or leave their domain at the largest default steps in SOME coordinates only: the entries
    with some invalid rows must still be resolved from their valid rows (closed-form Hessians)"""
    import numdifftools as nd
    acc = fw.Acc()
    for fname, method in chunk:
        if fname == 'overflow':
            x = np.array([1.0, 0.4, 2.0])

            def f(t):
                return np.exp(t[0] ** 8) + np.sin(t[1]) * t[2] + t[0] * t[1]
            e = math.exp(1.0)
            H = np.array([[e * (56 + 64), 1.0, 0.0], [1.0, -math.sin(0.4) * 2.0, math.cos(0.4)], [0.0, math.cos(0.4), 0.0]])
        else:
            x = np.array([0.7, 0.2, -1.2])

            def f(t):
                return t[0] * np.log(t[1]) + np.exp(0.3 * t[0] - 0.2 * t[2]) + t[2] * t[2] * t[1]
            ee = math.exp(0.3 * x[0] - 0.2 * x[2])
            H = np.array([[0.09 * ee, 1 / x[1], -0.06 * ee], [1 / x[1], -x[0] / x[1] ** 2, 2 * x[2]],
                          [-0.06 * ee, 2 * x[2], 0.04 * ee + 2 * x[1]]])
        tol = 1e-7 if method in ('central', 'central2') else 2e-3
        for entry, want in (('Hessian', H), ('Hessdiag', np.diag(H))):
            fw.fresh_library_state()
            prob = None
            try:
                with warnings.catch_warnings():
                    warnings.simplefilter('ignore')
                    with np.errstate(all='ignore'):
                        val = np.asarray(getattr(nd, entry)(f, method=method)(x))
                rel = np.abs(val - want) / np.maximum(1.0, np.abs(want)) if val.shape == want.shape else np.array([np.inf])
                if not np.all(rel <= tol):
                    prob = 'max relative error %.3g > %.3g; got %r, closed form %r' % (float(np.nanmax(np.where(np.isnan(rel), np.inf, rel))), tol, val.tolist(), want.tolist())
            except Exception as e_:      # noqa: BLE001
                prob = 'raised %s: %s' % (type(e_).__name__, e_)
            acc.case(('partial-rows', fname, method, entry), nontrivial=True, cell='partial-rows/%s' % fname, outcome=prob is None)
            if prob:
                acc.violation('C04:%s:envelope:%s:entries-with-some-invalid-rows' % (entry, method),
                              dict(kind='partial-rows', f=fname, method=method),
                              '%s(f, method=%r)(%r), f = %s: %s' % (entry, method, x.tolist(),
                                                                     'exp(x0^8) + sin(x1) x2 + x0 x1' if fname == 'overflow' else
                                                                     'x0 log(x1) + exp(.3 x0 - .2 x2) + x2^2 x1', prob), 3)
    return acc


def work_buffered(chunk):
    """f returns its value in a length-1 array - a fresh one, the SAME array object on every call (a preallocated result
    buffer), or a read-only one: Hessian / Hessdiag of the quartic must match the closed form in every case."""
    import numdifftools as nd
    acc = fw.Acc()
    for n, method in chunk:
        f, hess, size = quartic(n)
        x = np.array([0.7, -1.3, 0.4, 1.1][:n])
        buf = np.zeros(1)

        def fresh(t):
            return np.array([f(t)])

        def buffered(t):
            buf[0] = f(t)
            return buf

        def readonly(t):
            r = np.array([f(t)])
            r.setflags(write=False)
            return r
        for entry, kw in (('Hessian', {}), ('Hessdiag', dict(order=2)), ('Hessdiag', dict(order=4))):
            if method == 'central2' and entry == 'Hessdiag' and False:
                continue
            want = hess(x) if entry == 'Hessian' else np.diag(hess(x))
            allow = 1e-6 * size(x)
            for name, g in (('fresh', fresh), ('buffered', buffered), ('readonly', readonly)):
                if name == 'buffered' and method not in REAL_STEP:
                    continue      # (a real result buffer cannot hold the complex / bicomplex values of the complex-step methods)
                fw.fresh_library_state()
                prob = None
                try:
                    with warnings.catch_warnings():
                        warnings.simplefilter('ignore')
                        with np.errstate(all='ignore'):
                            val, info = getattr(nd, entry)(g, method=method, full_output=True, **kw)(x)
                    val = np.asarray(val)
                    err = float(np.max(np.abs(val - want))) if val.shape == want.shape else float('inf')
                    if not err <= allow:
                        prob = 'max error %.3g > %.3g (got %r, closed form %r)' % (err, allow, val.tolist(), want.tolist())
                    elif not np.allclose(np.ravel(info.f_value), f(x), rtol=1e-12, atol=0):
                        prob = 'info.f_value %r, f(x) = %r' % (np.ravel(info.f_value).tolist(), f(x))
                except Exception as e:      # noqa: BLE001
                    prob = 'raised %s: %s' % (type(e).__name__, str(e)[:80])
                acc.case(('outputform', n, method, entry, kw.get('order'), name), nontrivial=True, cell='output-form/%s' % name,
                         outcome=prob is None)
                if prob:
                    acc.violation('C04:%s:length-1-array-%s:%s' % (entry, name, method),
                                  dict(kind='outputform', n=n, method=method),
                                  '%s(f, method=%r%s)(%r), f returning a %s length-1 array: %s'
                                  % (entry, method, ''.join(', %s=%r' % kv for kv in kw.items()), x.tolist(), name, prob), n)
    fw.fresh_library_state()
    return acc


def run(ctx):
    its = items(ctx)
    # heavy items (large n) first so that the pool drains evenly
    its.sort(key=lambda it: -it[1])
    acc = ctx.pmap(work, its, chunk=1, tier=ctx.tier)
    acc.merge(ctx.pmap(work_partial_rows, [(fn, m) for fn in ('overflow', 'domain') for m in REAL_STEP], chunk=1))
    acc.merge(ctx.pmap(work_buffered, [(n, m) for n in (1, 2, 3) for m in METHODS], chunk=2))
    acc.merge(ctx.pmap(work_quartic, [(n, xk, m) for n in (1, 2, 3, 4) for xk in ('mixed', 'pos') for m in METHODS], chunk=2))
    acc.merge(ctx.pmap(work_fun_assigned, [(e, m, st, k) for e in ('Hessian', 'Hessdiag') for m in METHODS for st in FUN_STARTS
                                           for k in FUN_KINDS], chunk=4))
    for it in (its[0], its[len(its) // 3], its[len(its) // 2], its[-1]):
        spec, n, xk = it
        x = point(xk, n)
        orc = rh.analyse(spec, x)
        acc.sample(dict(f=rh.show(spec), spec=spec, n=n, x=x, exact_hessian=orc.H, S=orc.S, R_an=orc.R,
                        calls='Hessian x %d methods x generators, Hessdiag x methods x orders %r' % (
                            len(methods_for(spec)), HD_ORDERS)))
    if CALIBRATE:
        print(json.dumps({k: fw.jsonable(v) for k, v in sorted(acc.extra.items()) if k.startswith('cal/')}, indent=0))
    frozen = sorted(k for k in ENV if k.startswith('EH') or k.startswith('EHD'))
    sp = specs(ctx)
    rule = ('%d function specs (quadratic forms 0.5x\'Qx+c\'x+d with symmetric Q without zero entries; exp(a.x)+sin(b.x)+0.5x\'Qx; '
            'ridge products g(a.x)h(b.x), g,h in %r; the same as length-1 arrays; p+1j*q for the real-step methods) x n in %s x '
            'points {0.3+0.1i, all 25, all 1e-3, mixed signs} x Hessian(6 methods) and Hessdiag(6 methods x orders 2,4,6) x '
            'generators (%s).  Oracle: H.shape == (n,n); H == H.T bitwise (NaN-aware); class-A entries (analyticity radius of '
            'the four line restrictions >= c_A x 2 x largest documented step; c_A = 1.1 real-step, 8 complex-step) within '
            'E x S x fac of the mpmath closed form, S = largest S_2 of the restrictions along e_i, e_j, (e_i+-e_j)/sqrt2, '
            'fac = max(1,(rho/h_max)^2) for real-step methods (rounding grows like eps/h^2); for a scalar user step (documented: no '
            'extrapolation steps) the Taylor remainder ((p+2)!/2) S (2h/rho)^p of the raw p-th order formula is added; quadratic f: every Hessian entry within %g eps x qscale x fac, '
            'qscale = sum|Q| + sum_k(|Q||x|+|c|)_k + 0.5|x|\'|Q||x| + |c|\'|x| + |d| (a second difference with stencil radius '
            '2h has rounding error <= 4 eps N(|x|+2h)/h^2 <= 8 eps qscale for h >= 1, the nominal step; smaller user steps '
            'enter through fac); |diag(Hessian)-Hessdiag| <= %g x (sum of both error estimates) + 0.01(E_H+E_HD) S fac.  '
            'Non-trivial = some class-A entry has E x S x fac < |exact|/2 (oracle side only).  Constants: %s.'
            % (len(sp), rh.RIDGE_FUNS, '1..4' if ctx.quick else '1..6',
               'default' if ctx.quick else 'default, MaxStepGenerator(base_step in {0.25,0.02}, num_steps in {15,25}, '
               'step_ratio in {2,1.6}) for real-step methods, MinStepGenerator(num_extrap=4), scalar step 1e-2',
               QUAD_C, K1,
               'CALIBRATION RUN - accuracy not judged' if CALIBRATE else
               ('frozen in envelopes.json: %r' % frozen if frozen else
                'envelopes.json has no EH/EHD keys: fallback E = 1e-6 (central, central2, complex, multicomplex), 1e-3 (forward, backward)')))
    return fw.finish(ctx, acc, LEVEL, rule, exhaustive=True, required_cells=required_cells(ctx),
                     assumptions=['envelope constants are calibrated numbers (envelopes.json) or the stated fallbacks',
                                  'the analyticity radius is a conservative majorant-based lower bound (truncated at 40 Taylor terms)',
                                  'functions, coefficient vectors and points outside the stated finite pools are not covered',
                                  'complex-valued f is exercised with the four real-step methods only (complex-step methods must reject it: C11)'])


# ---------------------------------------------------------------------------------------------

def replay(case):
    if case.get('kind') == 'partial-rows':
        a = work_partial_rows([(case['f'], case['method'])])
        bad = [r['detail'] for k, (n, recs) in a.viol.items() for r in recs]
        return not bad, '%r -> %s' % (case, bad or 'resolved')
    if case.get('kind') == 'outputform':
        a = work_buffered([(case['n'], case['method'])])
        bad = [r['detail'] for k, (n, recs) in a.viol.items() for r in recs]
        return not bad, '%r -> %s' % (case, bad or 'identical for every output form')
    if case.get('kind') == 'fun-assigned':
        a = work_fun_assigned([(case['entry'], case['method'], case['start'], case['fkind'])])
        bad = [r['detail'] for k, (n, recs) in a.viol.items() for r in recs]
        return not bad, '%r -> %s' % (case, bad or 'exact')
    if case.get('kind') == 'quartic':
        a = work_quartic([(case['n'], case['xkind'], case['method'])])
        bad = [r['detail'] for k, (n, recs) in a.viol.items() for r in recs]
        return not bad, '%r -> %s' % (case, bad or 'exact')
    spec = rh.tuplify(case['spec'])
    n, xk = int(case['n']), case['xkind']
    method, order = case['method'], case['order']
    gen = (case['gen'][0], dict(case['gen'][1]))
    x = point(xk, n)
    orc = rh.analyse(spec, x)
    fun = rh.make_fun(spec, n)
    lines = []
    if case['entry'] == 'agree':
        rH = run_call(fun, 'Hessian', method, None, gen, x)
        rD = run_call(fun, 'Hessdiag', method, order, gen, x)
        v = judge_agree(spec, n, method, order, gen, orc, rH, rD)
        lines.append('diag(Hessian) = %r' % (np.diag(np.asarray(rH.get('val'))) if rH['status'] == 'ok' else rH['exc'],))
        lines.append('Hessdiag      = %r' % (rD.get('val') if rD['status'] == 'ok' else rD['exc'],))
    else:
        res = run_call(fun, case['entry'], method, order, gen, x)
        v = judge(spec, n, xk, case['entry'], method, order, gen, orc, res)
        lines.append('observed: %r' % (res.get('val') if res['status'] == 'ok' else res['exc'],))
    lines.append('exact Hessian: %r' % (orc.H,))
    want = case.get('key')
    hits = [(k, d) for k, d in v.viol if want is None or k == want]
    for k, d in v.viol:
        lines.append('%s :: %s' % (k, d))
    if not v.viol:
        lines.append('all checks of this case hold')
    return not hits, '\n'.join(lines)
