"""C07 - Richardson extrapolation removes exactly the modelled error terms (DESIGN 5/C07).

E1: ratios (real and complex) x spacing x order x num_terms x sequence length x columns.
Exact part: the float weights and ratio are converted exactly to Gaussian rationals and the
annihilation identities are evaluated exactly.  Behavioural part: exact model sequences, rounded
once, through the real Richardson.__call__.
"""
import cmath
import math
from fractions import Fraction

import mpmath as mp
import numpy as np

from mc import framework as fw
from mc.oracle.exactnum import QA, F

LEVEL = 'exploration'
EPS = np.finfo(float).eps

REAL_RATIOS = [1.05, 1.2, 1.6, 2.0, 3.0, 4.0, 10.0, 100.0]
CPLX_RATIOS = [complex(r * cmath.exp(1j * th)) for r in (1.6, 2.0, 4.0)
               for th in (math.pi / 8, math.pi / 4, -math.pi / 3, math.pi / 2)]
COEFS = [  # (L, a_j generator)
    (1.0, lambda j: 1.0),
    (-1e6, lambda j: (-1.0) ** j * 1e-6),
    (1e-6, lambda j: 1e6 / (j + 1)),
    (3.7 - 2.2j, lambda j: (0.5 + 1.5j) * (-1) ** j),
]
H0S = [1.0, 0.1, -0.5]      # a negative start step: the limit taken from below (Limit method "below" does this)


RTYPE = {'v': 'float'}      # how the (real) step ratio is handed to the library: 'float' | 'int' | 'int64'


def lib_ratio(ratio):
    """the documented ratio is a number: an integer-typed 2 is the same ratio as 2.0"""
    t = RTYPE['v']
    if t == 'int':
        return int(ratio)
    if t == 'int64':
        return np.int64(int(ratio))
    return ratio


def exact_of(z):
    return QA.of(complex(z)) if isinstance(z, complex) else QA.of(float(z))


_WCACHE = {}


def weight_check(ratio, step, order, nt):
    """Exact annihilation identities for the real rule with nt effective terms.
    returns (problem or None, kappa, w1norm, singular, worst_units)"""
    from numdifftools.extrapolation import Richardson
    key = (ratio, step, order, nt, RTYPE['v'])
    if key in _WCACHE:
        return _WCACHE[key]
    w = np.asarray(Richardson(step_ratio=lib_ratio(ratio), step=step, order=order, num_terms=nt).rule(nt + 1))
    problem = None
    if w.shape != (nt + 1,):
        res = ('rule has shape %r for %d terms' % (w.shape, nt), 1.0, 1.0, False, 0.0)
        _WCACHE[key] = res
        return res
    R = np.ones((nt + 1, nt + 1), dtype=complex)
    for i in range(nt + 1):
        for j in range(nt):
            R[i, j + 1] = (1.0 / ratio) ** (i * (order + step * j))
    with np.errstate(all='ignore'):
        kappa = float(np.linalg.cond(R)) if nt > 0 else 1.0
    w1 = float(np.sum(np.abs(w)))
    singular = not (100 * EPS * kappa < 0.5)
    worst = 0.0
    if not singular:
        wq = [exact_of(complex(v) if np.iscomplexobj(w) else float(v)) for v in w]
        rinv = exact_of(ratio).inverse() if isinstance(ratio, complex) else QA(1 / F(ratio))
        allow = 100 * EPS * kappa * w1
        s = QA(0)
        for v in wq:
            s = s + v
        res0 = abs(complex(s - QA(1)))
        worst = max(worst, res0 / allow)
        if res0 > allow:
            problem = 'weights sum to %r, not 1 (allowance %.3g)' % (complex(s), allow)
        for j in range(nt):
            p = order + step * j
            rp = rinv ** p
            t = QA(1)
            s = QA(0)
            for v in wq:
                s = s + v * t
                t = t * rp
            resj = abs(complex(s))
            worst = max(worst, resj / allow)
            if resj > allow and problem is None:
                problem = ('sum_i w_i r^(-i*%d) = %r, modelled power h^%d is not annihilated '
                           '(allowance %.3g, kappa %.3g)' % (p, complex(s), p, allow, kappa))
    res = (problem, kappa, w1, singular, worst)
    _WCACHE[key] = res
    return res


def model_sequence(ratio, step, order, nt, length, L, afun, h0):
    """L + sum_{j<nt} a_j h_i^(order+step j), h_i = h0/ratio^i; exact in 60 digits, rounded once."""
    r = mp.mpc(ratio.real, ratio.imag) if isinstance(ratio, complex) else mp.mpf(ratio)
    Lm = mp.mpmathify(L)
    seq, hs, mags = [], [], []
    for i in range(length):
        h = mp.mpf(h0) / r ** i
        v = Lm
        mag = abs(Lm)
        for j in range(nt):
            a = mp.mpmathify(afun(j))
            t = a * h ** (order + step * j)
            v += t
            mag += abs(t)
        seq.append(complex(v))
        hs.append(complex(h))
        mags.append(float(mag))
    return seq, hs, mags


def behaviour(ratio, step, order, num_terms, length, ncols, kappa, w1, singular):
    """Run the real Richardson on model sequences.  returns (problem or None, n_calls)"""
    from numdifftools.extrapolation import Richardson
    nt = min(num_terms, length - 1)
    # built positionally in the documented order (step_ratio, step, order, num_terms); the weight check builds by keyword
    rich = Richardson(lib_ratio(ratio), step, order, num_terms)
    cplx = isinstance(ratio, complex)
    calls = 0
    for h0 in H0S:
        cols, hcols, magcols, Ls = [], [], [], []
        for c in range(ncols):
            L, afun = COEFS[(c + (0 if not cplx else 3)) % len(COEFS)] if ncols > 1 else COEFS[0]
            s, hs, mags = model_sequence(ratio, step, order, nt, length, L, afun, h0)
            cols.append(s)
            hcols.append(hs)
            magcols.append(mags)
            Ls.append(L)
        anyc = cplx or any(isinstance(L, complex) for L in Ls)
        seq = np.array(cols, dtype=complex if anyc else float).T.copy() if anyc else \
            np.array([[z.real for z in c] for c in cols]).T.copy()
        steps = np.array(hcols, dtype=complex).T.copy() if cplx else \
            np.array([[z.real for z in c] for c in hcols]).T.copy()
        seq_before = seq.copy()
        try:
            out, err, hh = rich(seq, steps)
        except Exception as e:
            return ('raised-' + type(e).__name__, 'raised %s: %s' % (type(e).__name__, e)), calls
        calls += 1
        m = length - nt
        if out.shape != (m, ncols) or err.shape != (m, ncols) or hh.shape != (m, ncols):
            which = 'values' if out.shape != (m, ncols) else ('estimates' if err.shape != (m, ncols) else 'steps')
            return ('shape-' + which, 'output shapes values %r / estimates %r / steps %r, expected (%d, %d) = '
                    'length - terms used' % (out.shape, err.shape, hh.shape, m, ncols)), calls
        if not np.array_equal(seq, seq_before):
            return ('input-modified', 'input sequence modified in place'), calls
        # "non-negative" is a statement about real numbers: an estimate with a non-zero imaginary part is neither
        # (numpy orders complex numbers lexicographically, so `err >= 0` alone would accept 10.9-25.5j)
        if np.iscomplexobj(err) and np.any(np.imag(err) != 0):
            bad = err.ravel()[np.flatnonzero(np.imag(err).ravel() != 0)[0]]
            return ('negative-estimate', 'error estimate %r is not a non-negative real number' % (bad,)), calls
        if not (np.all(np.real(err) >= 0) or np.any(np.isnan(err))):
            return ('negative-estimate', 'negative error estimate %r' % (np.real(err).min(),)), calls
        if np.any(np.isnan(err)) and np.all(np.isfinite(seq)):
            return ('nan-estimate', 'NaN error estimate for finite input'), calls
        if not np.array_equal(hh, steps[:m]):
            return ('steps', 'returned steps are not the first %d input steps' % m), calls
        if not singular:
            for c in range(ncols):
                for i in range(m):
                    allow = 1e3 * EPS * kappa * w1 * magcols[c][i]
                    if not abs(out[i, c] - Ls[c]) <= allow:
                        return ('limit', 'column %d slot %d: extrapolated %r, limit %r (allowance %.3g, kappa '
                                '%.3g)' % (c, i, out[i, c], Ls[c], allow, kappa)), calls
        # the documented second spelling, and a single column handed over as 1-d sequence / 1-d steps
        try:
            o2, e2, h2 = rich.extrapolate(seq, steps)
            calls += 1
            if not (np.array_equal(o2, out) and np.array_equal(e2, err)):
                return ('extrapolate-differs', 'extrapolate(sequence, steps) differs from __call__(sequence, steps)'), calls
            if ncols == 1:
                for name, fn in (('__call__', rich), ('extrapolate', rich.extrapolate)):
                    o1, e1, _ = fn(seq[:, 0].copy(), steps[:, 0].copy())
                    calls += 1
                    if not (np.shape(o1) == (m,) and np.array_equal(np.ravel(o1), out[:, 0]) and np.array_equal(np.ravel(e1), err[:, 0])):
                        return ('one-dimensional-sequence', '%s on the 1-d sequence gives values of shape %r = %r, the same column as '
                                '(n, 1) array gives %r' % (name, np.shape(o1), np.ravel(o1).tolist()[:3], out[:, 0].tolist()[:3])), calls
        except Exception as e:      # noqa: BLE001
            return ('raised-%s:second-spelling' % type(e).__name__, 'extrapolate / 1-d call raised %s: %s' % (type(e).__name__, e)), calls
        # columns are independent: bit-identical to the column alone
        if ncols > 1:
            for c in range(ncols):
                o1, e1, _ = rich(seq[:, c:c + 1].copy(), steps[:, c:c + 1].copy())
                calls += 1
                if not (np.array_equal(o1[:, 0], out[:, c]) and np.array_equal(e1[:, 0], err[:, c])):
                    return ('columns', 'column %d of a %d-column input differs from the same column alone' % (c, ncols)), calls
    return None, calls


def run_case(case):
    ratio, step, order, num_terms, length, ncols = case[:6]
    RTYPE['v'] = case[6] if len(case) > 6 else 'float'
    nt = min(num_terms, length - 1)
    wprob, kappa, w1, singular, worst = weight_check(ratio, step, order, nt)
    bprob, calls = behaviour(ratio, step, order, num_terms, length, ncols, kappa, w1, singular)
    return wprob, bprob, singular, worst, calls, nt


def work(chunk):
    acc = fw.Acc()
    for case in chunk:
        ratio, step, order, num_terms, length, ncols = case[:6]
        wprob, bprob, singular, worst, calls, nt = run_case(case)
        RTYPE['v'] = 'float'
        kind = 'complex' if isinstance(ratio, complex) else ('real' if len(case) <= 6 else 'real-' + case[6])
        acc.case(case, nontrivial=(not singular and nt > 0), n_eval=max(calls, 1),
                 cell=['%s/terms=%d' % (kind, nt), '%s/spacing=%d' % (kind, step)],
                 outcome=(singular, nt, length - nt))
        if singular:
            acc.count('numerically-singular-skipped')
        else:
            acc.maxi('worst_weight_residual_in_allowance_units', worst)
        jc = dict(ratio=ratio, step=step, order=order, num_terms=num_terms, length=length, ncols=ncols)
        if len(case) > 6:
            jc['ratio_type'] = case[6]
            kind = 'real-' + case[6]
        rank = num_terms * 1000 + length * 10 + ncols
        if wprob:
            acc.violation('C07:%s:weights:terms=%d' % (kind, nt), jc, wprob, rank)
        if bprob:
            short = 'short' if length <= num_terms else 'full'
            acc.violation('C07:%s:call:%s:terms=%d:%s' % (kind, short, nt, bprob[0]), jc, bprob[1], rank)
    return acc


# ---------------------------------------------------------------------------------------------
# two-step histories: one Richardson object reused on sequences of different length, and different
# objects one after the other (E2, depth 2, exact comparison with the call executed alone)

def history_cases():
    out = []
    for ratio in (2.0, CPLX_RATIOS[0]):
        for step, order in ((1, 1), (2, 2)):
            for nt in (2, 3):
                for length in (1, 2, nt + 1, 8):
                    out.append((ratio, step, order, nt, length))
    return out


def history_run(case, shared):
    from numdifftools.extrapolation import Richardson
    ratio, step, order, nt, length = case
    key = ('R', ratio, step, order, nt)
    if key not in shared:
        shared[key] = Richardson(step_ratio=ratio, step=step, order=order, num_terms=nt)
    L, afun = COEFS[0]
    seq, hs, mags = model_sequence(ratio, step, order, min(nt, length - 1), length, L, afun, 1.0)
    cplx = isinstance(ratio, complex)
    a = np.array(seq, dtype=complex if cplx else float).reshape(-1, 1) if cplx else \
        np.array([z.real for z in seq]).reshape(-1, 1)
    h = np.array(hs, dtype=complex).reshape(-1, 1) if cplx else np.array([z.real for z in hs]).reshape(-1, 1)
    try:
        return fw.obs(shared[key](a, h))
    except Exception as e:
        return fw.obs(e)


def work_integer_sequences(chunk):
    """sequences stored with an integer dtype (integer limit, integer coefficients, integer steps 2^k ... 1): the same
    numbers as their float copies, so every output slot is L as well"""
    from numdifftools.extrapolation import Richardson
    acc = fw.Acc()
    for ratio, step, order, nt, length in chunk:
        L = [7, -3, 1]
        hs = [int(ratio) ** (length - 1 - i) for i in range(length)]
        cols = []
        for c, Lc in enumerate(L):
            cols.append([Lc + sum((j + 1 + c) * h ** (order + step * j) for j in range(nt)) for h in hs])
        if max(abs(v) for col in cols for v in col) >= 2 ** 52:
            continue
        seq = np.array(cols, dtype=np.int64).T
        steps = np.array([hs] * len(L), dtype=np.int64).T
        prob = None
        try:
            out, err, _ = Richardson(step_ratio=float(ratio), step=step, order=order, num_terms=nt)(seq, steps)
            outf, errf, _ = Richardson(step_ratio=float(ratio), step=step, order=order, num_terms=nt)(seq.astype(float), steps.astype(float))
            out, outf = np.asarray(out, dtype=float), np.asarray(outf, dtype=float)
            scale = float(np.max(np.abs(seq)))
            if out.shape != outf.shape:
                prob = 'shape %r for the integer-typed sequence, %r for its float copy' % (out.shape, outf.shape)
            elif not np.all(np.abs(out - outf) <= 1e-12 * scale):
                prob = 'integer-typed sequence gives %r, its float copy %r (limits %r)' % (out[0].tolist(), outf[0].tolist(), L)
        except Exception as e:      # noqa: BLE001
            prob = 'raised %s: %s' % (type(e).__name__, e)
        acc.case(('intseq', ratio, step, order, nt, length), nontrivial=nt > 0, cell='integer-sequence', outcome=prob is None)
        if prob:
            acc.violation('C07:real:call:integer-typed-sequence:terms=%d' % nt,
                          dict(kind='intseq', ratio=ratio, step=step, order=order, num_terms=nt, length=length),
                          'Richardson(step_ratio=%r, step=%d, order=%d, num_terms=%d) on an int64 sequence of length %d: %s'
                          % (float(ratio), step, order, nt, length, prob), nt)
    return acc


def work_history(chunk):
    acc = fw.Acc()
    fw.pair_histories(acc, 'C07', 'richardson-object-reuse', history_cases(), history_run)
    return acc


def run(ctx):
    ratios = REAL_RATIOS + CPLX_RATIOS
    cases = []
    for ratio in ratios:
        for step in (1, 2, 3, 4):
            for order in range(1, 9):
                for nt in range(0, 6):
                    lengths = sorted({1, 2, 3, max(nt, 1), nt + 1, nt + 2, 20}) if ctx.quick else range(1, 21)
                    for length in lengths:
                        for ncols in ((1, 3) if ctx.quick else (1, 2, 3)):
                            cases.append((ratio, step, order, nt, length, ncols))
    # the same real ratios handed over as integer-typed numbers (Python int, np.int64)
    for ratio, rtype in ((2.0, 'int'), (3.0, 'int'), (4.0, 'int64'), (10.0, 'int')):
        for step in (1, 2):
            for order in (1, 2, 4):
                for nt in range(0, 4):
                    for length in (1, nt + 1, nt + 3, 12):
                        cases.append((ratio, step, order, nt, length, 2, rtype))
    acc = ctx.pmap(work, cases, chunk=100)
    acc.merge(ctx.pmap(work_history, [0], chunk=1))
    acc.merge(ctx.pmap(work_integer_sequences, [(r, st, o, nt, ln) for r in (2, 3) for st in (1, 2) for o in (1, 2) for nt in (1, 2)
                                                for ln in (nt + 1, nt + 3, 8)], chunk=8))
    for c in cases[:2] + cases[len(cases) // 2:len(cases) // 2 + 2] + cases[-2:]:
        acc.sample(dict(ratio=c[0], spacing=c[1], order=c[2], num_terms=c[3], length=c[4], columns=c[5]))
    req = ['%s/terms=%d' % (k, t) for k in ('real', 'complex') for t in range(1, 6)] + ['history/richardson-object-reuse']
    req += ['real-int/terms=2', 'real-int64/terms=3']
    rule = ('full product of %d ratios (8 real, 12 complex) x spacing 1..4 x order 1..8 x num_terms 0..5 x '
            'lengths x columns; exact Gaussian-rational annihilation identities on the float weights; model '
            'sequences L + sum a_j h^(order+spacing j) (4 coefficient patterns, 3 start steps 1, 0.1, -0.5) through the real '
            'Richardson.__call__: every slot == L within 1e3*eps*kappa*|w|_1*scale, shapes, estimates real and >= 0, '
            'column independence bit-for-bit.  Non-trivial = at least one term used and 100*eps*kappa < 0.5.'
            % len(ratios))
    return fw.finish(ctx, acc, LEVEL, rule, exhaustive=True, required_cells=req,
                     assumptions=['kappa = 2-norm condition number of the oracle-built Richardson matrix',
                                  'sequences are formed in 60-digit arithmetic and rounded once'])


def replay(case):
    if case.get('kind') == 'intseq':
        a = work_integer_sequences([(case['ratio'], case['step'], case['order'], case['num_terms'], case['length'])])
        bad = [r['detail'] for k, (n, recs) in a.viol.items() for r in recs]
        return not bad, '%r -> %s' % (case, bad or 'ok')
    if case.get('kind') == 'history':
        cs = history_cases()
        a, b = cs[case['i']], cs[case['j']]
        fw.fresh_library_state()
        alone = history_run(b, {})
        fw.fresh_library_state()
        sh = {}
        history_run(a, sh)
        got = history_run(b, sh)
        return got == alone, 'history %r then %r: %s' % (a, b, 'same as alone' if got == alone else 'differs from the call alone')
    r = case['ratio']
    ratio = complex(r['re'], r['im']) if isinstance(r, dict) else float(r)
    c = (ratio, case['step'], case['order'], case['num_terms'], case['length'], case['ncols'])
    if case.get('ratio_type'):
        c = c + (case['ratio_type'],)
    wprob, bprob, singular, worst, calls, nt = run_case(c)
    return not (wprob or bprob), 'case=%r weights:%r call:%r singular=%r' % (c, wprob, bprob, singular)
