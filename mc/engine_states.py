"""E2 - explicit-state search over operation histories of the real library objects.

* module state: every mutable container (dict, list, set, ndarray) reachable from the numdifftools
  module dictionaries and class dictionaries, plus the attribute dictionaries of module-level library
  instances, is found by a scan; it can be digested exactly, snapshotted and restored.
* a state of the search is an operation history; `build(history)` restores the pristine module
  state, creates fresh real objects and replays the history.  Two histories are merged only if the
  exact digest (module state + live objects) is equal, so merged states have identical futures.
"""
import collections
import hashlib
import importlib
import sys
import types

import numpy as np

MODULES = ['numdifftools.core', 'numdifftools.finite_difference', 'numdifftools.extrapolation',
           'numdifftools.limits', 'numdifftools.step_generators', 'numdifftools.multicomplex',
           'numdifftools.fornberg', 'numdifftools.nd_scipy']
_CONTAINER = (dict, list, set, np.ndarray, collections.OrderedDict)


def _library_class(obj):
    mod = getattr(type(obj), '__module__', '') or ''
    return mod.startswith('numdifftools')


def scan():
    """[(label, container)] of mutable module-/class-level state of the library."""
    found = []
    seen = set()

    def add(label, obj):
        if id(obj) in seen:
            return
        seen.add(id(obj))
        found.append((label, obj))

    for name in MODULES:
        mod = importlib.import_module(name)
        for k, v in sorted(vars(mod).items()):
            if k.startswith('__'):
                continue
            if isinstance(v, _CONTAINER):
                add('%s.%s' % (name, k), v)
            elif isinstance(v, type) and getattr(v, '__module__', None) == name:
                for ck, cv in sorted(vars(v).items()):
                    if ck.startswith('__'):
                        continue
                    if isinstance(cv, _CONTAINER):
                        add('%s.%s.%s' % (name, k, ck), cv)
                    elif _library_class(cv) and hasattr(cv, '__dict__'):
                        add('%s.%s.%s.__dict__' % (name, k, ck), vars(cv))
            elif _library_class(v) and hasattr(v, '__dict__') and not isinstance(v, (type, types.ModuleType,
                                                                                    types.FunctionType)):
                add('%s.%s.__dict__' % (name, k), vars(v))
    return found


def _feed(h, obj, depth=0, memo=None):
    """Exact, order-stable byte feed of plain data, arrays and library objects."""
    if memo is None:
        memo = set()
    if isinstance(obj, np.ndarray):
        h.update(b'A' + str(obj.dtype).encode() + repr(obj.shape).encode())
        h.update(np.ascontiguousarray(obj).tobytes() if obj.dtype != object else repr(obj.tolist()).encode())
    elif isinstance(obj, (np.generic,)):
        h.update(b'G' + str(obj.dtype).encode() + obj.tobytes())
    elif isinstance(obj, (int, float, complex, str, bytes, bool)) or obj is None:
        h.update(b'P' + type(obj).__name__.encode() + repr(obj).encode())
    elif isinstance(obj, dict):
        h.update(b'D%d' % len(obj))
        items = list(obj.items())
        try:
            items.sort(key=lambda kv: repr(kv[0]))
        except Exception:
            pass
        for k, v in items:
            _feed(h, k, depth + 1, memo)
            _feed(h, v, depth + 1, memo)
    elif isinstance(obj, (list, tuple)):
        h.update(b'L%d' % len(obj))
        for v in obj:
            _feed(h, v, depth + 1, memo)
    elif isinstance(obj, (set, frozenset)):
        h.update(b'S%d' % len(obj))
        for v in sorted(obj, key=repr):
            _feed(h, v, depth + 1, memo)
    elif isinstance(obj, (types.FunctionType, types.BuiltinFunctionType, types.MethodType, np.ufunc, type)):
        h.update(b'F' + getattr(obj, '__qualname__', getattr(obj, '__name__', 'fn')).encode())
    elif _library_class(obj):
        if id(obj) in memo or depth > 12:
            h.update(b'R')
            return
        memo.add(id(obj))
        h.update(b'O' + type(obj).__qualname__.encode())
        d = dict(getattr(obj, '__dict__', {}))
        for s in getattr(type(obj), '__slots__', ()) or ():
            if hasattr(obj, s):
                d[s] = getattr(obj, s)
        d.pop('fun', None)      # the user callable is not library state
        _feed(h, d, depth + 1, memo)
    else:
        h.update(b'X' + type(obj).__qualname__.encode())


def digest(*objs):
    h = hashlib.blake2b(digest_size=16)
    for o in objs:
        _feed(h, o)
        h.update(b'#')
    return h.digest()


def _same(c, refs, pristine):
    """cheap exact test: container c still holds the pristine content (same objects, same array bytes)"""
    if isinstance(c, dict):
        if len(c) != len(refs):
            return False
        for k, v in refs.items():
            if k not in c or c[k] is not v:
                return False
            if not _val_same(v, pristine[k]):
                return False
        return True
    if isinstance(c, list):
        return len(c) == len(refs) and all(a is b for a, b in zip(c, refs)) and all(
            _val_same(a, b) for a, b in zip(c, pristine))
    if isinstance(c, np.ndarray):
        return _val_same(c, pristine)
    return False


def _val_same(v, p):
    if isinstance(v, np.ndarray):
        return v.shape == p.shape and v.dtype == p.dtype and (v.tobytes() == p.tobytes() if v.dtype != object else False)
    if isinstance(v, (tuple, list)):
        return len(v) == len(p) and all(_val_same(a, b) for a, b in zip(v, p))
    if isinstance(v, (int, float, complex, str, bool, bytes)) or v is None:
        return type(v) is type(p) and (v == p or (v != v and p != p))
    return False     # unknown mutable object: rebuild to be safe


class ModuleState(object):
    def __init__(self):
        self.items = scan()
        self.pristine = [self._copy(c) for _, c in self.items]
        self.refs = [self._shallow(c) for _, c in self.items]

    @staticmethod
    def _shallow(c):
        if isinstance(c, dict):
            return dict(c)
        if isinstance(c, list):
            return list(c)
        return None

    @staticmethod
    def _copy(c):
        import copy
        return copy.deepcopy(c)

    def labels(self):
        return [l for l, _ in self.items]

    def restore(self):
        import copy
        for i, ((label, c), p) in enumerate(zip(self.items, self.pristine)):
            if _same(c, self.refs[i], p):
                continue
            self._restore_one(c, p)
            self.refs[i] = self._shallow(c)

    @staticmethod
    def _restore_one(c, p):
        import copy
        for _ in (0,):
            if isinstance(c, dict):
                c.clear()
                c.update(copy.deepcopy(p))
            elif isinstance(c, list):
                c[:] = copy.deepcopy(p)
            elif isinstance(c, set):
                c.clear()
                c.update(p)
            elif isinstance(c, np.ndarray):
                c[...] = p

    def digest(self):
        return digest([c for _, c in self.items])

    def rescan_new(self):
        """labels of containers that appeared since construction (e.g. a lazily created global)."""
        now = {l for l, _ in scan()}
        return sorted(now - set(self.labels()))


def bfs(initial_ops, enabled, apply_history, max_depth, on_transition=None, max_states=None):
    """Generic BFS over histories with exact-digest merging.

    enabled(history, state_info) -> iterable of ops;  apply_history(history) -> (digest, state_info)
    (state_info is whatever `enabled` needs).  Returns dict(states, transitions, depth_completed)."""
    d0, info0 = apply_history([])
    seen = {d0}
    frontier = collections.deque([([], info0)])
    transitions = 0
    depth_completed = 0
    while frontier:
        hist, info = frontier.popleft()
        if len(hist) >= max_depth:
            continue
        for op in enabled(hist, info):
            h2 = hist + [op]
            d, info2 = apply_history(h2)
            transitions += 1
            if on_transition:
                on_transition(h2, info2)
            if d not in seen:
                seen.add(d)
                frontier.append((h2, info2))
                depth_completed = max(depth_completed, len(h2))
            if max_states and len(seen) >= max_states:
                return dict(states=len(seen), transitions=transitions, depth_completed=depth_completed, capped=True)
    return dict(states=len(seen), transitions=transitions, depth_completed=depth_completed, capped=False)
