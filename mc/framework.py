"""Common machinery of the bounded-exhaustive checks (see DESIGN.md section 2).

A driver (mc/props/cNN.py) enumerates a finite space of cases and feeds each case to the real
library inside forked worker processes.  Workers fill an ``Acc`` (accumulator); the parent merges
them, matches violations against known_findings.json, writes evidence/CNN.json and replay
artefacts, and prints the VIOLATION / KNOWN-FINDING lines.
"""
from __future__ import annotations

import hashlib
import json
import multiprocessing as mp
import os
import subprocess
import sys
import time
import traceback

VERIF = os.path.dirname(os.path.dirname(os.path.abspath(__file__)))
REPO_SRC = os.environ.get('VERIF_REPO_SRC', '/repo/src')
MAX_STORED_PER_KEY = 5
MAX_SAMPLES = 12


class HarnessError(Exception):
    """A defect of the checking machinery itself (never reported as a violation)."""


def setup_paths():
    deps = os.path.join(VERIF, '.deps')
    if not os.path.isdir(deps) and os.path.isdir('/verif/.deps'):
        deps = '/verif/.deps'      # background snapshots (vp run) do not carry untracked files
    for p in (deps, REPO_SRC, VERIF):
        if p in sys.path:
            sys.path.remove(p)
    # the current working tree of the repository always wins
    sys.path.insert(0, VERIF)
    sys.path.insert(0, deps)
    sys.path.insert(0, REPO_SRC)


def nonneg_real(a):
    """elementwise: a finite, real (imaginary part exactly zero) and >= 0.  `a >= 0` alone orders complex numbers
    lexicographically and would accept 10.9-25.5j as 'non-negative'."""
    import numpy as np
    a = np.asarray(a)
    if np.iscomplexobj(a):
        return np.isfinite(a.real) & (a.imag == 0) & (a.real >= 0)
    return np.isfinite(a) & (a >= 0)


def h64(obj) -> int:
    """Stable 64-bit digest of a case description (repr of plain python data)."""
    return int.from_bytes(hashlib.blake2b(repr(obj).encode(), digest_size=8).digest(), 'big')


def jsonable(o):
    """Convert numpy / complex / tuples into plain JSON data (for evidence and replays)."""
    import numpy as np
    if isinstance(o, dict):
        return {str(k): jsonable(v) for k, v in o.items()}
    if isinstance(o, (list, tuple, set, frozenset)):
        return [jsonable(v) for v in o]
    if isinstance(o, np.ndarray):
        return jsonable(o.tolist())
    if isinstance(o, (np.bool_,)):
        return bool(o)
    if isinstance(o, np.integer):
        return int(o)
    if isinstance(o, np.floating):
        o = float(o)
    if isinstance(o, (complex, np.complexfloating)):
        return {'re': jsonable(float(o.real)), 'im': jsonable(float(o.imag))}
    if isinstance(o, float):
        if o != o or o in (float('inf'), float('-inf')):
            return repr(o)
        return o
    if isinstance(o, (int, str, bool)) or o is None:
        return o
    return repr(o)


class Acc(object):
    """Per-worker accumulator; merged in the parent."""

    def __init__(self):
        self.evaluations = 0
        self.nontrivial = set()      # digests of distinct non-trivial cases
        self.outcomes = set()        # digests of distinct observed outcomes
        self.cells = {}              # coverage cell -> number of non-trivial cases
        self.viol = {}               # key -> [count, [stored cases]]
        self.viol_cases = {}         # key -> set of digests of ALL violating cases (known-finding matching)
        self.samples = []
        self.counters = {}           # free-form named counters
        self.extra = {}              # free-form values (max-merged if numeric, else last)

    # -- recording ---------------------------------------------------------------------
    def case(self, case_id, nontrivial=True, cell=None, outcome=None, n_eval=1):
        self.evaluations += n_eval
        if nontrivial:
            self.nontrivial.add(h64(case_id))
            if cell is not None:
                for c in (cell if isinstance(cell, (list, tuple, set)) else (cell,)):
                    self.cells[c] = self.cells.get(c, 0) + 1
        if outcome is not None:
            self.outcomes.add(h64(outcome))

    def cell(self, name, n=1):
        self.cells[name] = self.cells.get(name, 0) + n

    def count(self, name, n=1):
        self.counters[name] = self.counters.get(name, 0) + n

    def maxi(self, name, value):
        try:
            if value != value:
                return
        except Exception:
            return
        if name not in self.extra or value > self.extra[name]:
            self.extra[name] = value

    def sample(self, case):
        if len(self.samples) < MAX_SAMPLES:
            self.samples.append(jsonable(case))

    def violation(self, key, case, detail, rank=None):
        """key: structural finding key; case: replayable description; detail: observed vs expected.
        rank: smaller = simpler (the simplest stored case becomes the replay artefact)."""
        ent = self.viol.setdefault(key, [0, []])
        ent[0] += 1
        jcase = jsonable(case)
        self.viol_cases.setdefault(key, set()).add('%016x' % h64(jcase))
        rec = {'case': jcase, 'detail': detail,
               'rank': rank if rank is not None else ent[0]}
        ent[1].append(rec)
        ent[1].sort(key=lambda r: r['rank'])
        del ent[1][MAX_STORED_PER_KEY:]

    # -- merging -----------------------------------------------------------------------
    def merge(self, other):
        self.evaluations += other.evaluations
        self.nontrivial |= other.nontrivial
        self.outcomes |= other.outcomes
        for k, v in other.cells.items():
            self.cells[k] = self.cells.get(k, 0) + v
        for k, v in other.counters.items():
            self.counters[k] = self.counters.get(k, 0) + v
        for k, v in other.extra.items():
            if isinstance(v, (int, float, tuple)):
                self.maxi(k, v)
            else:
                self.extra[k] = v
        for k, cs in other.viol_cases.items():
            self.viol_cases.setdefault(k, set()).update(cs)
        for k, (n, recs) in other.viol.items():
            ent = self.viol.setdefault(k, [0, []])
            ent[0] += n
            ent[1].extend(recs)
            ent[1].sort(key=lambda r: r['rank'])
            del ent[1][MAX_STORED_PER_KEY:]
        for s in other.samples:
            if len(self.samples) < MAX_SAMPLES:
                self.samples.append(s)
        return self


# --------------------------------------------------------------------------------------------
# worker pool: fork BEFORE the library is imported anywhere; every worker imports it itself.

_WORK = {}


# optional measurement (tools/lib_coverage.py): which library lines does a check execute?  Off unless VERIF_COVER names
# a directory; uses the COVERAGE tool id of sys.monitoring (the E3 scheduler uses the PROFILER id).
_COVER = {'on': False, 'lines': set(), 'dumped': 0}


def _cover_start():
    d = os.environ.get('VERIF_COVER')
    if not d or _COVER['on']:
        return
    mon = sys.monitoring
    lib = os.path.join(os.path.realpath(REPO_SRC), 'numdifftools') + os.sep
    try:
        mon.use_tool_id(mon.COVERAGE_ID, 'verif-cover')
    except ValueError:
        pass

    def cb(code, line):
        fn = code.co_filename
        if fn.startswith(lib) and os.sep + 'tests' + os.sep not in fn:
            _COVER['lines'].add((os.path.basename(fn), line))
        return mon.DISABLE
    mon.register_callback(mon.COVERAGE_ID, mon.events.LINE, cb)
    mon.set_events(mon.COVERAGE_ID, mon.events.LINE)
    _COVER['on'] = True


def _cover_dump():
    d = os.environ.get('VERIF_COVER')
    if not d or not _COVER['on'] or len(_COVER['lines']) == _COVER['dumped']:
        return
    os.makedirs(d, exist_ok=True)
    with open(os.path.join(d, '%d.txt' % os.getpid()), 'w') as fh:
        for f, l in sorted(_COVER['lines']):
            fh.write('%s:%d\n' % (f, l))
    _COVER['dumped'] = len(_COVER['lines'])


def _worker_init():
    setup_paths()
    os.environ.setdefault('OMP_NUM_THREADS', '1')
    _cover_start()


def library_origin(exc):
    """If the exception propagated OUT OF a library call made by the harness (the innermost library frame lies
    deeper than the innermost harness frame), return 'module.function' of that library frame, else None.
    An exception raised by harness code (also by a user function the harness handed to the library) is a
    defect of the machinery and stays a harness error."""
    lib = os.path.join(os.path.realpath(REPO_SRC), 'numdifftools') + os.sep
    mine = os.path.realpath(VERIF) + os.sep
    last_lib, last_mine, where = -1, -1, None
    for i, fs in enumerate(traceback.extract_tb(exc.__traceback__)):
        fn = os.path.realpath(fs.filename)
        if fn.startswith(lib):
            last_lib, where = i, '%s.%s' % (os.path.splitext(os.path.basename(fn))[0], fs.name)
        elif fn.startswith(mine):
            last_mine = i
    return where if last_lib > last_mine else None


def _library_exception_acc(prop, fn, chunk, kw):
    """A driver let an exception of the library escape: isolate the failing items of the chunk and report each
    as a violation (the properties are about results being returned for inputs of their domain; an exception
    that the unchanged tree never raises there is a failure to return one)."""
    acc = Acc()
    for item in chunk:
        try:
            acc.merge(fn([item], **kw))
        except Exception as e:      # noqa: BLE001
            where = library_origin(e)
            if where is None:
                raise
            acc.case(('library-exception', repr(item)), nontrivial=True, n_eval=1, outcome=('exception', type(e).__name__))
            acc.violation('%s:library-exception:%s:%s' % (prop, type(e).__name__, where),
                          dict(work_item=jsonable(item), work_fn='%s.%s' % (fn.__module__, fn.__name__), work_kw=jsonable(kw),
                               exception=type(e).__name__, raised_in=where),
                          'the library raised %s: %s (in %s) for an input of the property\'s domain'
                          % (type(e).__name__, str(e)[:200], where), 0)
    return acc


def replay_work_item(case):
    """generic replay of a 'library-exception' artefact: run the recorded work item alone"""
    import importlib

    def tup(o):
        return tuple(tup(v) for v in o) if isinstance(o, list) else o
    modname, fname = case['work_fn'].rsplit('.', 1)
    fn = getattr(importlib.import_module(modname), fname)
    try:
        fn([tup(case['work_item'])], **{k: tup(v) if k != 'targets' else v for k, v in (case.get('work_kw') or {}).items()})
    except Exception as e:      # noqa: BLE001
        where = library_origin(e)
        if where is None:
            raise
        return False, 'the library raised %s: %s (in %s)' % (type(e).__name__, e, where)
    return True, 'the work item ran without an exception of the library'


def _run_chunk(args):
    modname, fname, chunk, kw = args[:4]
    prop = args[4] if len(args) > 4 else 'C??'
    try:
        mod = sys.modules.get(modname)
        if mod is None:
            import importlib
            mod = importlib.import_module(modname)
        fn = getattr(mod, fname)
        try:
            return fn(chunk, **kw)
        except Exception as e:      # noqa: BLE001
            if library_origin(e) is None:
                raise
            return _library_exception_acc(prop, fn, chunk, kw)
    except BaseException:
        return ('__harness_error__', traceback.format_exc())
    finally:
        _cover_dump()


class Ctx(object):
    def __init__(self, prop, tier, seed, jobs):
        self.prop = prop
        self.tier = tier
        self.seed = seed
        self.jobs = jobs
        self.t0 = time.time()
        self.quick = tier == 'quick'

    def rotate(self, seq, k):
        """Seed-rotated slice of k items (quick tier); thorough tier takes everything."""
        seq = list(seq)
        if not self.quick or k >= len(seq):
            return seq
        s = self.seed % len(seq)
        rot = seq[s:] + seq[:s]
        return rot[:k]

    def pmap(self, fn, items, chunk=None, **kw):
        """Run fn(chunk_of_items, **kw) -> Acc in forked workers; returns merged Acc.
        Partition is deterministic (round-robin after a seed-dependent rotation)."""
        items = list(items)
        total = Acc()
        if not items:
            return total
        jobs = max(1, min(self.jobs, len(items)))
        if chunk is None:
            chunk = max(1, min(2000, len(items) // (jobs * 4) or 1))
        s = self.seed % len(items)
        items = items[s:] + items[:s]
        chunks = [items[i:i + chunk] for i in range(0, len(items), chunk)]
        modname, fname = fn.__module__, fn.__name__
        tasks = [(modname, fname, c, kw, self.prop) for c in chunks]
        if jobs == 1:
            _worker_init()
            results = map(_run_chunk, tasks)
            for r in results:
                self._merge(total, r)
            return total
        ctx = mp.get_context('fork')
        with ctx.Pool(jobs, initializer=_worker_init) as pool:
            for r in pool.imap_unordered(_run_chunk, tasks):
                self._merge(total, r)
        return total

    @staticmethod
    def _merge(total, r):
        if isinstance(r, tuple) and r and r[0] == '__harness_error__':
            raise HarnessError('worker failed:\n' + r[1])
        total.merge(r)


# --------------------------------------------------------------------------------------------
# known findings

def load_known(prop):
    path = os.path.join(VERIF, 'known_findings.json')
    if not os.path.exists(path):
        return []
    with open(path) as fh:
        data = json.load(fh)
    return [e for e in data.get('findings', []) if e.get('property') == prop]


def _validate_evidence(path):
    """Best-effort schema validation with the tooling venv (which has jsonschema)."""
    schema = '/root/.vp/EVIDENCE.schema.json'
    if not (os.path.exists(schema) and os.path.exists('/usr/local/bin/python3-vt')):
        return
    code = ("import json,sys,jsonschema;"
            "jsonschema.validate(json.load(open(sys.argv[1])), json.load(open(sys.argv[2])))")
    r = subprocess.run(['/usr/local/bin/python3-vt', '-W', 'ignore', '-c', code, path, schema],
                       capture_output=True, text=True)
    if r.returncode != 0:
        raise HarnessError('evidence file does not validate: ' + r.stderr[-2000:])


def finish(ctx, acc, level, rule, exhaustive, assumptions, required_cells=(), coverage_extra=None,
           replay_writer=None):
    """Match violations with known findings, write evidence + replays, print verdict, return rc."""
    prop = ctx.prop
    known = load_known(prop)
    known_keys = {e['key']: e for e in known if e.get('status') == 'known'}
    fixed_keys = {e['key']: e for e in known if e.get('status') == 'fixed'}

    missing = [c for c in required_cells if acc.cells.get(c, 0) == 0]

    new_viol, absorbed = [], {}
    record = os.environ.get('VERIF_RECORD_KNOWN')
    recorded_now = {}
    for key, (n, recs) in sorted(acc.viol.items()):
        if key in known_keys:
            absorbed[key] = n
            digests = acc.viol_cases.get(key, set())
            recorded_now[key] = sorted(digests)
            listed = known_keys[key].get('cases')
            if listed is not None and not record:
                extra = digests - set(listed)
                if extra:
                    # the finding is identified by the recorded failing cases: anything else is new
                    unl = [r for r in recs if ('%016x' % h64(r['case'])) in extra] or recs
                    new_viol.append((key + ':case-not-in-recorded-finding', len(extra), unl))
        else:
            new_viol.append((key, n, recs))
    if missing and not new_viol:
        # a silent verdict needs every required cell; with new violations the verdict is 'violated' anyway
        # (a library that raises everywhere leaves cells empty: that must not turn a violation into exit 2)
        raise HarnessError('vacuous coverage cells (no non-trivial case): %r' % (missing[:20],))
    if record:
        with open(record, 'a') as fh:
            fh.write(json.dumps({'property': prop, 'tier': ctx.tier, 'cases': recorded_now}) + '\n')

    rdir = os.path.join(os.environ.get('VERIF_REPLAY_DIR') or os.path.join(VERIF, 'replays'), prop)
    lines = []
    for key, n, recs in new_viol:
        os.makedirs(rdir, exist_ok=True)
        name = '%016x' % h64(key)
        path = os.path.join(rdir, name + '.json')
        art = {'property': prop, 'key': key, 'count': n, 'case': recs[0]['case'],
               'detail': recs[0]['detail'], 'more': recs[1:],
               'returned_after_fix': key in fixed_keys}
        with open(path, 'w') as fh:
            json.dump(art, fh, indent=1)
        with open(os.path.join(rdir, name + '.py'), 'w') as fh:
            fh.write(REPLAY_PY % {'prop': prop, 'json': path})
        lines.append('VIOLATION property=%s replay=%s' % (prop, path))
        print('  key=%s cases=%d :: %s' % (key, n, recs[0]['detail'][:400]))

    for key, n in sorted(absorbed.items()):
        e = known_keys[key]
        print('KNOWN-FINDING: property=%s %s [key=%s cases=%d]' % (prop, e.get('what', ''), key, n))

    cov = {
        'evaluations': int(acc.evaluations),
        'distinct_nontrivial': len(acc.nontrivial),
        'distinct_outcomes': len(acc.outcomes),
        'rule': rule,
        'samples': acc.samples[:MAX_SAMPLES],
        'exhaustive': bool(exhaustive),
        'cells_covered': len([c for c, v in acc.cells.items() if v > 0]),
        'cells': {str(k): int(v) for k, v in sorted(acc.cells.items(), key=lambda kv: str(kv[0]))[:400]},
        'counters': {k: jsonable(v) for k, v in sorted(acc.counters.items())},
        'measures': {k: jsonable(v) for k, v in sorted(acc.extra.items())},
        'known_findings_absorbed': absorbed,
        'violation_keys': {k: n for k, n, _ in new_viol},
        'required_cells_left_empty': [str(c) for c in missing[:50]],
    }
    if coverage_extra:
        cov.update(jsonable(coverage_extra))
    ev = {
        'property_id': prop, 'tier': ctx.tier, 'seed': int(ctx.seed), 'level': level,
        'coverage': cov, 'assumptions': list(assumptions),
        'wall_s': round(time.time() - ctx.t0, 3), 'violations': len(new_viol),
    }
    edir = os.environ.get('VERIF_EVIDENCE_DIR') or os.path.join(VERIF, 'evidence')   # trial runs only
    os.makedirs(edir, exist_ok=True)
    epath = os.path.join(edir, prop + '.json')
    with open(epath, 'w') as fh:
        json.dump(ev, fh, indent=1, sort_keys=True)
    _validate_evidence(epath)

    print('%s tier=%s seed=%d evaluations=%d distinct_nontrivial=%d outcomes=%d cells=%d '
          'violations=%d known=%d wall=%.1fs' % (
              prop, ctx.tier, ctx.seed, cov['evaluations'], cov['distinct_nontrivial'],
              cov['distinct_outcomes'], cov['cells_covered'], len(new_viol), len(absorbed),
              ev['wall_s']))
    for ln in lines:
        print(ln)
    return 1 if new_viol else 0


REPLAY_PY = '''#!/venv/bin/python
"""Stand-alone replay of one recorded violation of %(prop)s (no explorer involved)."""
import json, sys
sys.path.insert(0, '/verif')
from mc.framework import setup_paths
setup_paths()
import importlib
drv = importlib.import_module('mc.props.%(prop)s'.lower())
art = json.load(open(%(json)r))
ok, text = drv.replay(art['case'])
print(text)
sys.exit(0 if ok else 1)
'''


# --------------------------------------------------------------------------------------------
# pristine library state between cases

_PRISTINE = None


def fresh_library_state():
    """Restore every mutable module-/class-level container of the library to its state right after
    import (NOT simply emptied: a pre-seeded rule table is part of what a fresh interpreter sees).
    History dependence is C09's subject; every other check starts each case from the import state."""
    global _PRISTINE
    if _PRISTINE is None:
        from mc.engine_states import ModuleState
        import numdifftools  # noqa: F401
        _PRISTINE = ModuleState()
    else:
        _PRISTINE.restore()
    return _PRISTINE


# --------------------------------------------------------------------------------------------
# E2 in the small: two-step histories over a representative case alphabet

def pair_histories(acc, prop, label, cases, run, describe=repr):
    """Every ordered pair (a, b) of `cases` is executed as the history [a; b] from the pristine library
    state: the observation of b must be identical to the observation of b executed alone from the pristine
    state.  run(case, shared) -> hashable observation; `shared` is a dict that lives for one history, so
    that run() can keep and REUSE library objects (the same Richardson / Jacobian / generator instance) across
    the two steps.  Reports a violation '<prop>:history:<label>' with the shortest failing pair."""
    alone = {}
    for i, b in enumerate(cases):
        fresh_library_state()
        alone[i] = run(b, {})
    for i, a in enumerate(cases):
        for j, b in enumerate(cases):
            fresh_library_state()
            shared = {}
            run(a, shared)
            got = run(b, shared)
            same = got == alone[j]
            acc.case(('history', label, i, j), nontrivial=True, cell='history/' + label, outcome=same)
            acc.count('history_pairs')
            if not same:
                acc.violation('%s:history:%s' % (prop, label), dict(kind='history', label=label, first=describe(a),
                                                                    second=describe(b), i=i, j=j),
                              'after %s, %s returned %s; executed alone from a fresh state it returns %s'
                              % (describe(a), describe(b), _short_obs(got), _short_obs(alone[j])), rank=i + j)
    fresh_library_state()


def _short_obs(o):
    s = repr(o)
    return s if len(s) < 300 else s[:300] + '...'


def obs(x):
    """canonical hashable observation of a library result (arrays -> bytes, tuples recursively, exceptions -> name)"""
    import numpy as np
    if isinstance(x, BaseException):
        return ('exc', type(x).__name__)
    if isinstance(x, tuple) or isinstance(x, list):
        return tuple(obs(v) for v in x)
    if hasattr(x, '_fields'):
        return tuple(obs(v) for v in x)
    a = np.asarray(x)
    if a.dtype == object:
        return ('obj', repr(x))
    return (str(a.dtype), a.shape, a.tobytes())
